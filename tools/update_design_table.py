#!/usr/bin/env python3
"""tools/update_design_table.py: replaces the seeds table of DESIGN.md §9.1 by the output of tools/seed_table.py"""
import os, subprocess
here = os.path.dirname(os.path.abspath(__file__))
table = subprocess.run(["python3", here + "/seed_table.py"], capture_output=True, text=True, check=True).stdout.rstrip("\n").split("\n")
path = here + "/../DESIGN.md"
lines = open(path).read().split("\n")
start = next(i for i, l in enumerate(lines) if l.startswith("| seed | property |"))
end = start
while end < len(lines) and lines[end].startswith("|"):
    end += 1
open(path, "w").write("\n".join(lines[:start] + table + lines[end:]))
print("table: %d rows" % (len(table) - 2))
