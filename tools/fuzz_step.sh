#!/bin/bash
# tools/fuzz_step.sh <PROPERTY> <target> <runs> <max_len>
# Coverage-guided (libFuzzer) secondary driver of the thorough tier: a fixed number of runs from a
# fresh corpus seeded with a few deterministic pseudo-random files; the semantic oracle is inside the
# target, which writes a replay file and prints the VIOLATION line itself before it aborts.
set -u
prop=$1; target=$2; runs=$3; maxlen=$4
seed=${VERIF_SEED:-20260925}
home=${VERIF_HOME:-/verif}
out=${VERIF_OUT:-$home}
corpus=$out/target/fuzz_corpus/$target.$$
rm -rf "$corpus"; mkdir -p "$corpus"
python3 - "$corpus" "$seed" "$maxlen" <<'PY'
import sys, random
d, seed, n = sys.argv[1], int(sys.argv[2]), int(sys.argv[3])
r = random.Random(seed)
for i in range(8):
    open(f"{d}/seed{i}", "wb").write(bytes(r.randrange(256) for _ in range(n if i % 2 == 0 else n // 4)))
PY
cd $home/harness/fuzz || exit 2
export CARGO_NET_OFFLINE=true
cargo +nightly fuzz build "$target" >/dev/null 2>"$out/target/fuzz_build.log" || { tail -20 "$out/target/fuzz_build.log"; echo "HARNESS-ERROR: fuzz target $target does not build"; exit 2; }
log=$out/target/fuzz_$target.log
s=$(( seed % 4294967295 + 1 ))
cargo +nightly fuzz run "$target" "$corpus" -- -runs="$runs" -seed="$s" -max_len="$maxlen" -len_control=0 -artifact_prefix="$out/target/fuzz_artifacts_" >"$log" 2>&1
code=$?
grep -E "^violation in part|^VIOLATION|HARNESS-ERROR" "$log"
done_runs=$(grep -oE "Done [0-9]+ runs" "$log" | grep -oE "[0-9]+" | tail -1)
cov=$(grep -oE "cov: [0-9]+" "$log" | tail -1 | grep -oE "[0-9]+")
corp=$(ls "$corpus" | wc -l)
rm -rf "$corpus"
python3 - "$out/evidence/$prop.json" "$target" "${done_runs:-0}" "${cov:-0}" "$corp" "$s" "$code" <<'PY'
import json, sys
f, target, runs, cov, corp, seed, code = sys.argv[1:]
try:
    e = json.load(open(f))
except Exception:
    sys.exit(0)
c = e["coverage"]
c.setdefault("fuzz", []).append({"engine": "libFuzzer (cargo-fuzz)", "target": target, "runs": int(runs), "edge_coverage": int(cov), "final_corpus_files": int(corp), "libfuzzer_seed": int(seed), "exit_code": int(code), "note": "fresh corpus seeded with 8 pseudo-random files; oracle inside the target (same evaluation function as the proptest part)"})
c["evaluations"] = c.get("evaluations", 0) + int(runs)
json.dump(e, open(f, "w"), indent=2)
PY
if grep -q "^VIOLATION" "$log"; then exit 1; fi
if [ $code -ne 0 ]; then echo "HARNESS-ERROR: fuzz run of $target ended with exit code $code (see $log)"; tail -5 "$log"; exit 2; fi
echo "fuzz $target: ${done_runs:-?} runs, edge coverage ${cov:-?}, no violation"
exit 0
