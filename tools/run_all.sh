#!/bin/bash
# runs every registered quick (or thorough) check in turn and prints one line each
tier=${1:-quick}
cd "$(dirname "$0")/.."
for p in $(jq -r '.checks[].property_id' MANIFEST.json); do
  s=$(date +%s.%N)
  out=$(./check $p --tier $tier 2>&1); code=$?
  e=$(date +%s.%N)
  printf "%s exit=%d %6.1fs  %s\n" $p $code $(echo "$e - $s" | bc) "$(echo "$out" | tail -1 | cut -c1-200)"
  if [ $code -ne 0 ]; then echo "$out" | grep -E "VIOLATION|HARNESS|violation" | head -5 | cut -c1-400; fi
done
