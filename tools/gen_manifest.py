#!/usr/bin/env python3
"""Generates /verif/MANIFEST.json from the table below (single source of truth for the interface)."""
import json, subprocess, os
HOOK_COMMITS = ["9361e31"]
CHECKS = {
 # id: (technique, level text, level note, design ref)
 "C01": ("property-based differential testing (proptest) of SequentialSolver against an independent exact DP/brute-force oracle, plus bounded-exhaustive enumeration of tiny models",
         "Generated-input search: random well-formed models x all solver configurations plus an exhaustively enumerated tiny sub-space, each run compared with the exact optimum; non-termination detected by a proven poll budget. Exploration level: held on everything generated, absence not established.",
         "Trusted: the harness model families are well-formed by construction (DESIGN §3) and the oracle (backward induction cross-checked by brute force).", "§7 C01"),
}
NOT_YET = {}
def main():
    props = [json.loads(l) for l in open('/verif/properties.jsonl')]
    checks = []
    na = []
    for p in props:
        pid = p['id']
        if pid in CHECKS:
            tech, text, note, ref = CHECKS[pid]
            checks.append({
                "property_id": pid,
                "quick_cmd": f"./check {pid} --tier quick",
                "thorough_cmd": f"./check {pid} --tier thorough",
                "evidence_file": f"/verif/evidence/{pid}.json",
                "replay_cmd_template": f"./check {pid} --replay {{path}}",
                "engine": "harness",
                "level_claimed": {"category": "exploration", "text": text, "design_ref": "DESIGN.md " + ref},
                "level_note": note,
                "technique": tech,
            })
        else:
            na.append({"property_id": pid, "reason": NOT_YET.get(pid, "check not built yet (implementation in progress, see DESIGN.md §7 for the planned generated check); nothing is claimed for it")})
    m = {
        "version": 1,
        "setup_cmd": "./check --build",
        "hooks": {
            "guard": "cargo feature xgillard_ddo_verif on crate ddo (default off)",
            "enable": "the harness crate /verif/harness depends on ddo by path (/repo/ddo) with features = [\"xgillard_ddo_verif\"]; every check rebuilds it from /repo's working tree (cargo build --release --offline)",
            "baseline_off_cmd": "cd /repo && cargo test --workspace --no-fail-fast --offline",
            "source_commits": HOOK_COMMITS,
            "add_only": True,
        },
        "engines": [
            {"name": "harness", "path": "/verif/harness", "serves_properties": sorted(CHECKS.keys()),
             "kind_free_text": "Rust crate: proptest strategies for model instances/configurations/op sequences/schedules, independent oracles, recording wrappers, cooperative scheduler over the hooks; sharded over 16 processes"},
        ],
        "checks": checks,
        "notes": "All checks are generated-input search against explicit oracles (property-based testing / fuzzing). Exit 0 = held on everything explored; 1 = VIOLATION line; 2 = harness error or inconclusive. Known findings: /verif/KNOWN_FINDINGS.txt. Regression replays of repaired defects: /verif/regress (run by every quick check).",
        "not_applicable": na,
    }
    json.dump(m, open('/verif/MANIFEST.json', 'w'), indent=1)
    print("MANIFEST.json written:", len(checks), "checks,", len(na), "not claimed")
main()
