#!/usr/bin/env python3
"""Generates /verif/MANIFEST.json from the table below (single source of truth for the interface)."""
import json, subprocess, os
HOOK_COMMITS = ["9361e31", "621142d", "a5ab281", "a262322"]
EXPL = " Exploration level: the property held on everything generated/enumerated in the run (counts, label histogram and samples are in the evidence file); absence of violations is not established."
TRUST = "Trusted: harness model families well-formed by construction (DESIGN §3), oracles independent of the library (h* on atom tables cross-checked by brute force; reference models), proptest/serde; "
CHECKS = {
 "C01": ("property-based differential testing (proptest) of SequentialSolver against an independent exact DP / brute-force oracle + bounded-exhaustive enumeration of tiny models",
         "Random well-formed models (table-driven powerset family, bounded knapsack, set packing with dynamic order, common-subsequence with long arcs) x all solver configurations, plus every 3-variable/2-atom table (strided in the quick tier) and 10-16 item knapsacks (long searches); each uninterrupted run compared with the exact optimum; non-termination detected by a proven poll budget, crashes by catch_unwind." + EXPL,
         TRUST + "poll-budget bound (DESIGN §1).", "§7 C01"),
 "C02": ("property-based testing with a validity-predicate oracle (independent replay of the reported decisions) over uninterrupted, cut-off and scheduled-parallel runs",
         "Every reported solution is replayed through the atom tables (feasibility, one decision per variable, value = lb = Completion value, ub = value after uninterrupted runs) on sequential runs, on the sequential solver cut at every poll index, and on the parallel solver under owned schedules and on real threads; plus the knapsack / set-packing / common-subsequence families (small and large, each with its own replay function)." + EXPL,
         TRUST + "cooperative scheduler (DESIGN §6).", "§7 C02"),
 "C03": ("schedule-owning property-based testing: cooperative scheduler over add-only hooks, random / PCT / systematically enumerated schedules, differential against h*; plus real-thread stress",
         "ParallelSolver with 1..4 workers under a harness-owned schedule (critical sections, condvar parks, and optionally cutoff polls / cache / dominance operations as yield points); random byte schedules (shrinkable), PCT priorities, and every schedule within a deviation bound on small bases; real-thread stress 2..16 workers, plus real-thread runs (1-2 workers) with the duplicate-free fringe forced on re-convergent table models and 10-16 item knapsacks." + EXPL,
         TRUST + "the hooks deliver the events they claim (add-only, /repo commits in hooks.source_commits); schedules owned at critical-section/trait-call granularity, not instruction level.", "§6, §7 C03"),
 "C04": ("schedule-owning property-based testing with an invariant-over-history oracle (scheduler state: deadlock, worker crash, premature completion, step bound)",
         "Thread counts 1..8 (construction and builder, smaller/equal/larger), cutoff firing at generated poll indices, random/PCT/systematic schedules; the scheduler state decides: deadlock = no runnable worker while one is parked, worker exit by panic, 'complete' while nodes are open or in progress, step bound." + EXPL,
         TRUST + "liveness is bounded: 'returns within the step bound under every explored schedule' plus structural deadlock detection.", "§6, §7 C04"),
 "C05": ("fault-point enumeration by generated-input search: every cutoff poll index of each generated sequential case; (poll index x schedule) for the parallel solver; bounds/solution oracle from h*",
         "Sequential: for each generated (instance, configuration) the cutoff fires at EVERY poll index 1..K+1 (complete per case); parallel: generated poll index x owned schedule (random/PCT/systematic); plus large searches (10-16 item knapsacks, 11-15 item set packing; sequential and 2-4 real threads) cut at a generated sample of poll indices. Oracle: lb <= optimum <= ub, solution replays to lb, is_exact only with the optimum." + EXPL,
         TRUST + "cooperative scheduler for the parallel part.", "§7 C05"),
 "C06": ("property-based differential testing of directly compiled relaxed diagrams against h* of generated sub-problems, incl. compilation histories on the same object",
         "Relaxed compilations of generated reachable sub-problems (width, incumbent below/at/above the sub-optimum, LEL/FRONTIER/Pooled, rough bounds, dominance, 0-3 prior compilations incl. interrupted ones) with fresh cache/dominance store; bound validity, truthful exactness, replay of the best exact solution." + EXPL,
         TRUST + "'in isolation' = fresh cache and dominance store.", "§7 C06"),
 "C07": ("property-based differential testing of restricted and exact-mode compilations against h* with solution replay",
         "Same case space as C06 in Restricted and Exact mode: value <= sub-optimum, best solution replays to the value, exact claims are true, exact mode yields the sub-optimum for every width." + EXPL,
         TRUST, "§7 C07"),
 "C08": ("property-based testing of cut-sets with a four-clause validity predicate; coverage decided by brute-force enumeration of all completions",
         "For every inexact relaxed diagram of the C06 space the cut-set is drained: each node replays exactly (i), is strictly deeper than the root (ii), carries a valid bound (iii), and the cut-set covers every completion beating incumbent and best exact value (iv, by enumeration of all completions; modulo dominance when a rule is active)." + EXPL,
         TRUST + "coverage enumeration limited to sub-problems with <= 20000 completions (others labelled).", "§7 C08, §11"),
 "C09": ("differential property-based testing: caching vs non-caching solver vs h*, in-vivo reference model of the cache traffic, scheduled-parallel runs with yields at every threshold read/write",
         "Re-convergent instances x configurations incl. a tie-shuffling fringe (processing orders the shipped fringes never produce); SimpleCache run vs EmptyCache run vs h*; recorded cache traffic vs reference map; parallel caching solver under owned fine-grained schedules." + EXPL,
         TRUST, "§7 C09"),
 "C10": ("model-based testing of SimpleDominanceChecker against a reference Pareto front (bounded-exhaustive + random query sequences) and differential solver runs with admissible rules",
         "Checker level: generated Dominance impls, exhaustive short and random long query/clear sequences vs a reference antichain (verdict, threshold soundness, comparator); solver level: admissible rules (DESIGN §11) never change the optimum, sequential and scheduled-parallel." + EXPL,
         TRUST + "solver-level rules admissible in the strong sense documented in DESIGN §11.", "§7 C10, §11"),
 "C11": ("model-based testing of both fringes against a reference multiset priority queue (bounded-exhaustive + random push/pop/clear sequences) and differential solver runs on depth-free models",
         "Every pop must return an entry of the reference that is maximal for (ub, value, state rank); len/is_empty after every step; unique path tags detect lost / invented / wrongly coalesced entries; NoDup coalesces only on equal (state, depth); solver level: NoDup vs Simple vs h* on depth-free states." + EXPL,
         TRUST, "§7 C11"),
 "C12": ("runtime verification over generated runs: recording wrappers around Problem/Relaxation + online protocol monitor per compilation",
         "All calls into user code during solver runs (sequential and real-thread parallel) and direct Exact/Restricted/Relaxed compilations of the three diagram types are checked by a monitor against the model (dst = transition(src,d), d in domain, cost = arc cost, merged = last merge output over >= 2 layer states containing dst, variable/layer/depth coherence)." + EXPL,
         TRUST + "monitor recomputes transitions with the deterministic model.", "§7 C12"),
 "C13": ("runtime verification over generated runs (per-layer expansion count <= width) + property-based testing of the width combinators",
         "For all-impacted models the monitor counts the states expanded per layer in every restricted / relaxed compilation (root layer and first layer below exempt for relaxed); generated nested Times/DivBy combinators never yield 0." + EXPL,
         TRUST, "§7 C13"),
 "C14": ("metamorphic / differential property-based testing of warm starts with witness solutions from the oracle",
         "set_primal with a genuinely feasible solution of value optimum-d (d = 0..6) then maximize: exact, value = optimum, feasible reported solution (sequential; parallel under owned schedules); set_primal twice keeps the first unless strictly greater." + EXPL,
         TRUST, "§7 C14"),
 "C15": ("differential property-based testing: Pooled vs Mdd<LEL> vs Mdd<FRONTIER> vs independent optimum on models with irrelevant (variable, state) pairs",
         "Depth-free table models with generated irrelevance patterns, set packing (dynamic order), common subsequence with jumps; widths 1..3, cache on/off, sequential and 1-3 real threads; all three diagrams exact and equal to the oracle, termination within the proven poll budget, default-completed solution replays." + EXPL,
         TRUST + "models declare irrelevance with a neutral default decision.", "§7 C15"),
 "C16": ("sub-process differential property-based testing (Hypothesis) of the 12 shipped example binaries against independent brute-force solvers written from the problem statements",
         "For each example a Hypothesis strategy generates well-formed instances in the example's file format (sizes small enough for exhaustive enumeration), the dev-profile binary built from /repo's working tree is run as a sub-process for widths {1,2,3,default} x threads {1,2[,4]} plus two intermediate widths (4..8, 9..16) chosen by the hash of the instance, and its printed objective / proof status / exit code is compared with the brute-force optimum; crashes and wrong optima are violations, a hang is a watchdog expiry (inconclusive). A second Hypothesis search per example (other seed, 2-5 times more instances, somewhat larger ones where the oracle stays cheap) drives the same example program compiled as an in-process server (its own main.rs, transformed in three places, c16/inproc.py) at every width 1..8, two widths in 9..16 and the default width; a failure seen there counts only after the real binary has reproduced it." + EXPL,
         "Trusted: the 12 brute-force oracles (cross-validated against the binaries at large widths), instance generators stay inside what each reader/model documents and every restriction they impose is satisfied by all shipped benchmark files of that example (measured, DESIGN §7 C16); wall-clock watchdog only for hangs (exit 2); in-process part: calling an example's main function repeatedly in one (regularly recycled) process behaves like separate processes - discrepancies with the real binary are counted, listed and never reported.", "§7 C16"),
 "C17": ("algebraic-law property-based testing of Solver::gap() on a stub solver: exhaustive grid + random pairs + completed solver runs",
         "Five stated predicates checked on every pair of a grid (infinities, 0, small, huge, powers of two and neighbours, both signs), on random pairs, and after completed runs (optimum zero / negative / infeasible)." + EXPL,
         "Trusted: f32 comparison semantics; pairs ordered lb <= ub.", "§7 C17"),
 "C18": ("model-based testing of SimpleCache/EmptyCache against a reference map (bounded-exhaustive + random op sequences, all keys read after every step); concurrent phases with order-independent oracles (linearizability necessary conditions)",
         "Sequential spec checked exhaustively for short sequences and randomly for long ones; concurrent update-only phases (2..16 real threads, barrier): no lost update, reads written by somebody, monotone, >= own update; dominance store hammered concurrently then probed against the Pareto front of everything presented." + EXPL,
         "Trusted: reference models; concurrent schedules are the OS's (stated weakness, DESIGN §10).", "§7 C18"),
 "C19": ("metamorphic property-based testing: the sequential solver cut at consecutive poll indices (all k in 1..K+1 per generated case)",
         "lb non-decreasing, ub non-increasing in the cut-off point, exact with lb = ub = optimum after the last poll; the relation is applied only after checking on the recorded pop logs that the run cut at k+1 extends the run cut at k." + EXPL,
         TRUST + "determinism of the sequential solver is verified per case, not assumed.", "§7 C19"),
 "C20": ("property-based testing of as_graphviz over compiled diagrams x all 64 configurations with a grammar-based DOT parser and a faithfulness oracle from recorded callbacks",
         "No panic; output parses with an independent DOT parser; ids declared once; edge end-points and cluster members declared or hidden by configuration; terminal iff a best value exists; edges match recorded transitions / relaxed arcs (decision, cost, end-points); node set matches created / non-deleted states (nodes pruned by a warm cache included: a third part compiles the rendered diagram after 2-5 others sharing its cache and dominance store)." + EXPL,
         TRUST + "node faithfulness decided only for depth-embedding states.", "§7 C20"),
}
NOT_YET = {}
def main():
    props = [json.loads(l) for l in open('/verif/properties.jsonl')]
    checks = []
    na = []
    for p in props:
        pid = p['id']
        if pid in CHECKS:
            tech, text, note, ref = CHECKS[pid]
            engine = "c16" if pid == "C16" else "harness"
            checks.append({
                "property_id": pid,
                "quick_cmd": f"./check {pid} --tier quick",
                "thorough_cmd": f"./check {pid} --tier thorough",
                "evidence_file": f"/verif/evidence/{pid}.json",
                "replay_cmd_template": f"./check {pid} --replay {{path}}",
                "engine": engine,
                "level_claimed": {"category": "exploration", "text": text, "design_ref": "DESIGN.md " + ref},
                "level_note": note,
                "technique": tech,
            })
        else:
            na.append({"property_id": pid, "reason": NOT_YET.get(pid, "check not built yet (implementation in progress, see DESIGN.md §7 for the planned generated check); nothing is claimed for it")})
    m = {
        "version": 1,
        "setup_cmd": "./check --build",
        "hooks": {
            "guard": "cargo feature xgillard_ddo_verif on crate ddo (default off)",
            "enable": "the harness crate /verif/harness depends on ddo by path (/repo/ddo) with features = [\"xgillard_ddo_verif\"]; every check rebuilds it from /repo's working tree (cargo build --release --offline)",
            "baseline_off_cmd": "cd /repo && cargo test --workspace --no-fail-fast --offline",
            "source_commits": HOOK_COMMITS,
            "add_only": True,
        },
        "engines": [
            {"name": "c16", "path": "/verif/c16/check_c16.py", "serves_properties": ["C16"],
             "kind_free_text": "Python / Hypothesis: per-example instance strategies, brute-force oracles, sub-process runner over the example binaries built from /repo (cargo build --examples --offline) and in-process server transport (c16/inproc.py: the same programs, generated from their main.rs and built from /repo), one worker process per example"},
            {"name": "harness", "path": "/verif/harness", "serves_properties": sorted(k for k in CHECKS.keys() if k != "C16"),
             "kind_free_text": "Rust crate: proptest strategies for model instances/configurations/op sequences/schedules, independent oracles, recording wrappers, cooperative scheduler over the hooks; sharded over 16 processes"},
        ],
        "checks": checks,
        "notes": "All checks are generated-input search against explicit oracles (property-based testing / fuzzing). Exit 0 = held on everything explored; 1 = VIOLATION line; 2 = harness error or inconclusive. Known findings: /verif/KNOWN_FINDINGS.txt. Regression replays of repaired defects: /verif/regress (run by every quick check).",
        "not_applicable": na,
    }
    json.dump(m, open('/verif/MANIFEST.json', 'w'), indent=1)
    print("MANIFEST.json written:", len(checks), "checks,", len(na), "not claimed")
main()
