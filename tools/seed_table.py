#!/usr/bin/env python3
"""tools/seed_table.py: prints the markdown table of DESIGN §9.1 from /verif/seeded/*/meta.json"""
import json, glob, os
def cell(d):
    return "; ".join(f"{k}: {v}" for k, v in d.items()) or "—"
print("| seed | property | what it needs to manifest (abridged) | caught by (tier, time) | checked and not caught (why that is right) |")
print("|---|---|---|---|---|")
for f in sorted(glob.glob(os.path.dirname(os.path.abspath(__file__)) + "/../seeded/*/meta.json"), key=lambda p: (p.split("/")[-2].split("-")[1], p)):
    m = json.load(open(f))
    need = m["needs_to_manifest"].replace("|", "/").replace("\n", " ")
    need = need if len(need) <= 330 else need[:327] + "…"
    print(f"| {m['id']} | {m['breaks_property']} | {need} | {cell(m['caught_by']).replace('|','/')} | {cell(m['missed_by']).replace('|','/')} |")
