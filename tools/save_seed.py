#!/usr/bin/env python3
"""tools/save_seed.py <seed id> <source dir> <property> <needs> <caught json> <missed json> [note]
Copies a confirmed seeded change (patch, demonstration, notes) to /verif/seeded/<id>/ and writes its meta.json."""
import json, os, shutil, sys
sid, src, prop, needs, caught, missed = sys.argv[1:7]
note = sys.argv[7] if len(sys.argv) > 7 else ""
d = f"/verif/seeded/{sid}"; os.makedirs(d, exist_ok=True)
for f in ["patch.diff", "seeded_demo.rs", "notes.md", "RUN.md", "demo.sh"]:
    if os.path.exists(f"{src}/{f}"): shutil.copy(f"{src}/{f}", f"{d}/{f}")
json.dump({"id": sid, "breaks_property": prop, "needs_to_manifest": needs,
           "confirmed_by_me": "scratch worktree: demonstration passes without / fails with the change; pinned suite 176/176 with the change; listed ./check runs (quick) against the changed tree (mutants/mutants.py try)",
           "caught_by": json.loads(caught), "missed_by": json.loads(missed), "note": note,
           "origin": "independent sub-agent given only the property text (and, in round 2, the one-line idea already used in round 1, to force a different mechanism) and a scratch worktree"},
          open(f"{d}/meta.json", "w"), indent=1)
print("saved", d)
