#!/usr/bin/env python3
"""tools/make_brief.py <property id> <scratch dir> <taken idea>... : writes <scratch dir>/brief.txt, the self-contained brief given
to an independent sub-agent for the sensitivity study (DESIGN §9.1). The brief contains the text of ONE property and nothing
from /verif."""
import json, sys
pid, d, taken = sys.argv[1], sys.argv[2], sys.argv[3:]
p = next(json.loads(l) for l in open("/verif/properties.jsonl") if json.loads(l)["id"] == pid)
ex = pid == "C16"
taken_txt = ""
if taken:
    taken_txt = "## Ideas that are already taken\nOther engineers already delivered these changes for the same property:\n" + "".join(f" - {t}\n" for t in taken) + "Do NOT reuse any of them or a close variant: pick a different code site and a different mechanism (ideally in a different file or a different clause of the property).\n\n"
open(f"{d}/brief.txt", "w").write(f"""You are a careful Rust engineer doing *mutation seeding* for a robustness study of the open-source crate xgillard/ddo (a Rust framework for decision-diagram based branch-and-bound optimisation: users supply a DP model and a relaxation; sequential and parallel solvers prove optimality).

You have your own scratch git worktree of the repository at: {d}/wt
Work ONLY inside that directory and in the output directory {d}/out. Never touch /repo or /verif and do not read anything under /verif. The sandbox has no network: use `--offline` with cargo, and set `CARGO_TARGET_DIR={d}/wt/target` for every cargo command (e.g. `cd {d}/wt && CARGO_TARGET_DIR={d}/wt/target cargo test --workspace --no-fail-fast --offline`). The crate is in {d}/wt/ddo (library sources in ddo/src, example programs in ddo/examples). The existing test-suite (176 tests, about 30 s to build, 5 s to run) currently passes.

## The property
{pid} — {p['title']}

Statement: {p['statement']}

Quantified over: {p['quantifier']['text']}

Code it is anchored in: {', '.join(p['anchors']['files'][:8])}

{taken_txt}## Your task
Produce ONE realistic change (a plausible bug: the kind of slip a maintainer could make in a refactoring or an "optimisation") to the {'example programs (ddo/examples) or the ' if ex else ''}library code of ddo that BREAKS the property above while
 (a) the workspace still compiles without new errors,
 (b) the existing test-suite still passes completely (`cargo test --workspace --no-fail-fast --offline`), and
 (c) the breakage is NOT exposed by ordinary use at once: it must need something specific to manifest — a particular interleaving of threads, a cutoff/fault at a particular point, a multi-step sequence of operations, an unusual (but valid) input or configuration, a rare tie, or two cooperating code sites that each look fine alone. Prefer subtle over blatant; avoid changes that make nearly every run fail.
Do not touch the `verif_hooks` module or the lines guarded by `#[cfg(feature = "xgillard_ddo_verif")]` (they are instrumentation; leave them as they are), and do not edit existing tests.

Then write a DEMONSTRATION: a self-contained Rust integration test (put it in {d}/wt/ddo/tests/seeded_demo.rs; it may define its own small Problem/Relaxation model, use threads, custom Cutoff/Fringe/Cache implementations, loops over many seeds, etc. — only crates already available to ddo's dev-dependencies){' or, for a change in an example program, a shell script demo.sh that builds the example binary and runs it on small instance files you write, comparing the printed objective with the optimum of an independent brute force' if ex else ''} that FAILS with your change and PASSES on the unchanged code. If the breakage depends on thread timing, make the demo robust (e.g. repeat many times, or use a custom trait implementation that blocks/yields to force the order) and say how often it fails. Verify both directions yourself: run the demo with the change (must fail); then save the change with `git diff -- ddo/src ddo/examples > {d}/out/patch.diff`, revert it with `git apply -R {d}/out/patch.diff` (keep the demo), run the demo again (must pass), and re-apply it with `git apply {d}/out/patch.diff`. NEVER use `git stash`: the stash is shared between all worktrees of the repository and other people work in other worktrees concurrently.

## Deliverables in {d}/out
1. `patch.diff` — `git diff` of the change ONLY (not the demo), applicable with `git apply` at the repository root.
2. `seeded_demo.rs` (and/or `demo.sh`) — the demonstration (copy of ddo/tests/seeded_demo.rs), plus `RUN.md` with the exact command to run it and the observed output with and without the change.
3. `notes.md` — which sentence/clause of the property is broken, what exactly is needed for the bug to manifest (input shape, configuration, interleaving, sequence), why the existing tests do not catch it, and how frequently random use would hit it (your estimate).
Finish by replying with a short summary (what you changed, where, what it needs to manifest, and the two test outcomes). Keep the change small (a few lines). If your first idea turns out to be caught by the existing tests or to be unreachable, try another one; do not give up before you have a verified change.
""")
print("wrote", f"{d}/brief.txt")
