#!/usr/bin/env python3
"""tools/benign_table.py <dir with B*/try_<i>.log and try2_<i>.log>: collects the results of the benign-change study (DESIGN §9.1bis/ter) into
/verif/benign/results.json and prints the markdown table."""
import glob, json, os, re, sys
src = sys.argv[1]
here = os.path.dirname(os.path.abspath(__file__)) + "/.."
titles = {}
for a in ("B1", "B2", "B3"):
    try:
        for m in re.finditer(r"(?m)^##\s*`?benign_(\d)\.diff`?\s*[–—-]+\s*(.*)$", open(f"{here}/benign/{a}/notes.md").read()):
            titles[(a, m.group(1))] = m.group(2).strip().rstrip(":")
    except OSError:
        pass
rows, by_patch = [], {}
for f in sorted(glob.glob(f"{src}/B*/try_*.log")) + sorted(glob.glob(f"{src}/B*/try2_*.log")):  # try2 = second pass (more checks)
    a, i = f.split("/")[-2], re.search(r"try2?_(\d)", f).group(1)
    txt = open(f).read()
    checks = {m.group(1): {"exit": int(m.group(2)), "secs": float(m.group(3))} for m in re.finditer(r"(?m)^(C\d+) exit=(\d+) ([\d.]+)s", txt)}
    key = f"{a}/benign_{i}.diff"
    if key in by_patch:
        by_patch[key]["checks"].update(checks)
        by_patch[key]["pinned_suite_green"] &= "176 passed; 0 failed" in txt
    else:
        by_patch[key] = {"patch": key, "what": titles.get((a, i), ""), "pinned_suite_green": "176 passed; 0 failed" in txt, "checks": checks}
        rows.append(by_patch[key])
json.dump(rows, open(f"{here}/benign/results.json", "w"), indent=1)
print("| patch | what it perturbs | pinned suite | checks run (quick tier) | alarms |")
print("|---|---|---|---|---|")
for r in rows:
    alarms = [c for c, v in r["checks"].items() if v["exit"] != 0]
    al = ", ".join("%s (exit %d)" % (c, r["checks"][c]["exit"]) for c in alarms) or "none"
    print("| %s | %s | %s | %s | %s |" % (r["patch"], r["what"][:200], "green" if r["pinned_suite_green"] else "RED", " ".join(sorted(r["checks"])), al))
