#!/usr/bin/env python3-vt
"""C16: every example program shipped with ddo prints, for every well-formed instance of its input
format and any width / thread count, the optimum found by an independent exhaustive enumeration,
and never hangs or crashes.  Sub-process differential test driven by Hypothesis.

usage: check_c16.py [--tier quick|thorough] [--replay FILE] [--only ex1,ex2] [--jobs N]
env  : VERIF_SEED (default 20260925), VERIF_TIER, VERIF_OUT (where evidence/ and replays/ go, default /verif)
exit : 0 held, 1 violation, 2 harness error / inconclusive
"""
import argparse, collections, glob, hashlib, itertools, json, multiprocessing, os, re, shutil, subprocess, sys, time, zlib
sys.path.insert(0, os.path.dirname(os.path.abspath(__file__)))
import inproc  # noqa: E402  (the in-process transport: the same example programs compiled as servers)

VERIF = os.environ.get("VERIF_HOME", "/verif")
OUT = os.environ.get("VERIF_OUT", VERIF)
KNOWN_FILE = VERIF + "/KNOWN_FINDINGS.txt"
SCHEMA = "/root/.vp/EVIDENCE.schema.json"
# sensitivity runs on a modified scratch copy of the repository point these two elsewhere
CRATE = os.environ.get("VERIF_REPO", "/repo") + "/ddo"
TARGET = os.environ.get("VERIF_EXAMPLES_TARGET", VERIF + "/target/examples")
BIN = TARGET + "/debug/examples"
SRV_DIR = os.environ.get("VERIF_C16SRV", os.path.dirname(TARGET.rstrip("/")) + "/c16srv")
TMP = "%s/target/c16_tmp/%d" % (VERIF, os.getpid())
os.environ.setdefault("HYPOTHESIS_STORAGE_DIRECTORY", TMP + "/hypothesis")

from hypothesis import HealthCheck, Phase, Verbosity, given, seed, settings, strategies as st  # noqa: E402

SEED = int(os.environ.get("VERIF_SEED", "20260925"))
WIDTHS = (1, 2, 3, None)
# quick-tier max_examples per example (thorough = 10x); tuned for ~60-120 s wall with 12 workers on 16 cores
QUICK_EXAMPLES = {"knapsack": 2500, "misp": 900, "max2sat": 1300, "mcp": 1600, "lcs": 2200, "sop": 2000, "tsptw": 1800,
                  "srflp": 1500, "talentsched": 2000, "psp": 2400, "alp": 2000}
# in-process part (second Hypothesis search per example, other seed, runs through the example compiled as a server: ~0.1 ms per
# run instead of ~10 ms): quick-tier max_examples (thorough = 10x), and the widths every one of its instances is solved with
INPROC_EXAMPLES = {"knapsack": 8000, "misp": 2000, "max2sat": 1200, "mcp": 1200, "lcs": 3000, "sop": 3500, "tsptw": 3000,
                   "srflp": 2000, "talentsched": 3500, "psp": 2500, "alp": 3500}
INPROC_WIDTHS = (1, 2, 3, 4, 5, 6, 7, 8, None)
# examples whose oracle stays cheap on somewhat larger instances: the in-process search draws from a wider size range there
# (knapsack <= 13 items, misp / mcp <= 11 vertices, max2sat <= 9 variables and 22 clauses, lcs strings of <= 10 letters)
INPROC_BIG = ("knapsack", "misp", "max2sat", "mcp", "lcs")
GOLOMB_SIZES = {"quick": range(2, 8), "thorough": range(2, 9)}
SHRINK_BUDGET_S = {"quick": 40.0, "thorough": 240.0}
RUN_TIMEOUT_S = {"quick": 60.0, "thorough": 120.0}
RULE = ("Hypothesis strategies (one per example) draw a structured instance of the example's input format at tiny sizes "
        "(plus all graphs on <= 3 unit-weight vertices for misp/mcp and every golomb size); each instance file is solved by the "
        "example binary for every width in {1,2,3,default} x every offered thread count, plus one width in 4..8 and one in 9..16 (chosen by the hash of the file, as is their thread count), and compared with a brute-force "
        "enumeration. A second search per example (other seed, several times more instances) drives the same example program compiled as a "
        "server process (its own main function called once per request, see c16/inproc.py) with every width in 1..8, two widths in 9..16 and the default width, thread counts alternating; "
        "a failure seen there is reported only after the real binary has reproduced it. A case (example, instance hash, width, threads) is non-trivial when the instance has >= 4 decision "
        "variables as the example's model counts them (>= 5 for sop/tsptw/srflp whose --width is a multiplier) and the run used "
        "an explicit width; distinct = distinct (example, sha1 of the file text, width, threads).")
ASSUMPTIONS = [
    "the brute-force oracles (written from the problem statements, not from the DP models) are correct at these sizes",
    "well-formed instance = inside what each example's reader / comments / shipped resources define: knapsack profits >= 0 and weights >= 0 (the reader parses them as unsigned; a third of the instances may contain zero-weight items, which the unchanged example solves exactly although no shipped file has one); misp weights >= 0; "
    "max2sat distinct clauses with positive, zero and negative weights (units in both written forms and tautologies included); tsptw integer distances (half of them closed under the triangle inequality, half not, like the shipped benchmark files), wide depot window; "
    "alp aircraft sorted by target time, deadlines monotone per class, separations closed under the triangle inequality; "
    "sop acyclic transitively-closed precedences with fixed first and last job; psp 0/1 demands, zero diagonal change-over, metric and non-metric change-over matrices (the shipped benchmark files contain both)",
    "binaries are the dev-profile examples built from /repo's working tree (overflow checks on)",
    "in-process part: the server binaries are generated from each example's main.rs by three textual substitutions (module paths, name of main, clap parse() -> parse_from(argv)) and built optimised with overflow checks and debug assertions on; "
    "repeated calls of an example's main function in one process behave like separate processes (a failure that the real binary does not reproduce is counted as inproc-only-discrepancy, not as a violation)",
    "a watchdog expiry that repeats once is inconclusive (exit 2), never a violation; sizes are tiny, so larger instances are not covered",
]


def sha(s):
    return hashlib.sha1(s.encode()).hexdigest()[:16]


def ints(lo, hi):
    return st.integers(lo, hi)


def fixed_list(elem, n):
    return st.lists(elem, min_size=n, max_size=n)


def all_pairs(n):
    return [(a, b) for a in range(n) for b in range(a + 1, n)]


def metric_close(d):
    """in-place Floyd-Warshall closure (a non-zero diagonal is closed too), repeated to a fixpoint"""
    n, changed = len(d), True
    while changed:
        changed = False
        for m, i, j in itertools.product(range(n), repeat=3):
            if d[i][m] + d[m][j] < d[i][j]:
                d[i][j], changed = d[i][m] + d[m][j], True
    return d


def rows(matrix, sep=" "):
    return "".join(sep.join(map(str, r)) + "\n" for r in matrix)


# ----------------------------------------------------------------------------------------------------------------------
# the 12 examples: strategy (structured instance) / render (file text) / oracle (optimum, None = infeasible) / nvars
# ----------------------------------------------------------------------------------------------------------------------
@st.composite
def s_knapsack(draw, big=False):
    # weights are parsed as usize: an item of weight 0 is a valid (if unusual) input, which the unchanged example solves
    # exactly; no shipped file has one, so only a third of the instances may contain such items (added after seed C16-S8)
    wmin = 0 if draw(ints(0, 2)) == 0 else 1
    items = draw(st.lists(st.tuples(ints(0, 15), ints(wmin, 10 if wmin else 6)), min_size=1, max_size=13 if big else 8))
    return {"capacity": draw(ints(0, 35 if big else 20)), "items": [list(i) for i in items], "comment": draw(st.booleans())}


def r_knapsack(i):
    return ("c generated\n" if i["comment"] else "") + "%d %d\n" % (len(i["items"]), i["capacity"]) + rows(i["items"])


def o_knapsack(i):
    it, best = i["items"], 0
    if len(it) > 8:  # larger instances of the in-process part: textbook capacity DP (weights >= 1), itself compared with the
        dp = [0] * (i["capacity"] + 1)  # enumeration below on every instance of <= 8 items
        for p_, w in it:
            for c in range(i["capacity"], w - 1, -1):
                dp[c] = max(dp[c], dp[c - w] + p_)
        return dp[i["capacity"]]
    for m in range(1 << len(it)):
        sel = [x for k, x in enumerate(it) if m >> k & 1]
        if sum(w for _, w in sel) <= i["capacity"]:
            best = max(best, sum(p for p, _ in sel))
    dp = [0] * (i["capacity"] + 1)
    for p_, w in it:
        for c in range(i["capacity"], w - 1, -1):
            dp[c] = max(dp[c], dp[c - w] + p_)
    assert dp[i["capacity"]] == best, "oracle self-check: knapsack DP and enumeration disagree"
    return best


@st.composite
def s_misp(draw, big=False):
    n = draw(ints(1, 11 if big else 8))
    edges = draw(st.lists(st.sampled_from(all_pairs(n)), unique=True)) if n > 1 else []
    return {"n": n, "weights": draw(fixed_list(st.one_of(st.just(1), ints(0, 9)), n)), "edges": [list(e) for e in edges],
            "all_node_lines": draw(st.booleans())}


def r_misp(i):
    nodes = "".join("n %d %d\n" % (k + 1, w) for k, w in enumerate(i["weights"]) if w != 1 or i["all_node_lines"])
    return "c generated\np edge %d %d\n" % (i["n"], len(i["edges"])) + nodes + "".join("e %d %d\n" % (a + 1, b + 1) for a, b in i["edges"])


def o_misp(i):
    best = 0
    for m in range(1 << i["n"]):
        if not any(m >> a & 1 and m >> b & 1 for a, b in i["edges"]):
            best = max(best, sum(w for k, w in enumerate(i["weights"]) if m >> k & 1))
    return best


@st.composite
def s_max2sat(draw, big=False):
    n = draw(ints(1, 9 if big else 6))
    lit = st.sampled_from([l for v in range(1, n + 1) for l in (v, -v)])
    # a clause is an unordered pair of literals: x == y is a unit clause, x == -y a tautology; all clauses distinct
    # weights may be negative (shipped file negative_wt.wcnf and its test); a unit clause is written "w x 0" or "w x x 0"
    # (shipped file debug.wcnf)
    wt = ints(-9, 9) if draw(st.booleans()) else ints(0, 9)
    clauses = draw(st.lists(st.tuples(wt, lit, lit), max_size=22 if big else 12, unique_by=lambda c: (min(c[1:]), max(c[1:]))))
    return {"n": n, "clauses": [list(c) for c in clauses], "unit_twice": draw(st.booleans())}


def r_max2sat(i):
    return "c generated\np wcnf %d %d\n" % (i["n"], len(i["clauses"])) + "".join(
        ("%d %d 0\n" % (w, x)) if x == y and not i.get("unit_twice") else ("%d %d %d 0\n" % (w, x, y)) for w, x, y in i["clauses"])


def o_max2sat(i):
    best = None
    for m in range(1 << i["n"]):
        val = lambda l: (m >> (abs(l) - 1) & 1) == (1 if l > 0 else 0)
        tot = sum(w for w, x, y in i["clauses"] if val(x) or val(y))
        best = tot if best is None else max(best, tot)
    return best


@st.composite
def s_mcp(draw, big=False):
    n = draw(ints(1, 11 if big else 8))
    edges = draw(st.lists(st.tuples(st.sampled_from(all_pairs(n)), ints(-9, 9)), unique_by=lambda e: e[0])) if n > 1 else []
    return {"n": n, "edges": [[a, b, w] for (a, b), w in edges], "comment": draw(st.booleans())}


def r_mcp(i):
    return ("c generated\n" if i["comment"] else "") + "%d %d\n" % (i["n"], len(i["edges"])) + "".join("%d %d %d\n" % (a + 1, b + 1, w) for a, b, w in i["edges"])


def o_mcp(i):
    return max(sum(w for a, b, w in i["edges"] if (m >> a & 1) != (m >> b & 1)) for m in range(1 << max(i["n"] - 1, 0)))


@st.composite
def s_lcs(draw, big=False):
    alpha = "ACGT"[:draw(ints(1, 4))]
    return {"strings": draw(st.lists(st.text(alphabet=alpha, min_size=1, max_size=10 if big else 7), min_size=2, max_size=4))}


def r_lcs(i):
    s = i["strings"]
    return "%d %d\n" % (len(s), len(set("".join(s)))) + "".join("%d %s\n" % (len(x), x) for x in s)


def o_lcs(i):
    def is_subsequence(x, s):
        it = iter(s)
        return all(c in it for c in x)
    strs = i["strings"]
    short, best = min(strs, key=len), 0
    for m in range(1 << len(short)):
        x = [c for k, c in enumerate(short) if m >> k & 1]
        if len(x) > best and all(is_subsequence(x, s) for s in strs):
            best = len(x)
    return best


@st.composite
def s_talentsched(draw):
    ns, na = draw(ints(1, 6)), draw(ints(1, 4))
    return {"durations": draw(fixed_list(ints(1, 5), ns)), "costs": draw(fixed_list(ints(1, 9), na)),
            "plays": draw(fixed_list(fixed_list(ints(0, 1), ns), na)), "header_one_line": draw(st.booleans())}


def r_talentsched(i):
    ns, na = len(i["durations"]), len(i["costs"])
    head = "%d %d\n" % (ns, na) if i["header_one_line"] else "%d\n%d\n" % (ns, na)
    return "generated\n" + head + "".join(" ".join(map(str, p)) + "  %d\n" % c for p, c in zip(i["plays"], i["costs"])) + "\n" + rows([i["durations"]])


def o_talentsched(i):
    dur, best = i["durations"], None
    for perm in itertools.permutations(range(len(dur))):
        tot = 0
        for plays, cost in zip(i["plays"], i["costs"]):  # an actor is paid from her first to her last scene
            pos = [k for k, s in enumerate(perm) if plays[s]]
            if pos:
                tot += cost * sum(dur[perm[k]] for k in range(pos[0], pos[-1] + 1))
        best = tot if best is None else min(best, tot)
    return best


@st.composite
def s_srflp(draw):
    n = draw(ints(2, 7))
    flows = [[0] * n for _ in range(n)]
    for (a, b), f in zip(all_pairs(n), draw(fixed_list(ints(0, 6), n * (n - 1) // 2))):
        flows[a][b] = flows[b][a] = f
    # "clearance": the file is given a name containing "Cl", for which the reader adds 10 to every length (7 of the 17
    # shipped files are of that kind)
    return {"lengths": draw(fixed_list(ints(1, 9), n)), "flows": flows, "sep": draw(st.sampled_from([",", " "])),
            "clearance": draw(st.booleans())}


def r_srflp(i):
    return "%d\n" % len(i["lengths"]) + rows([i["lengths"]], i["sep"]) + rows(i["flows"], i["sep"])


def o_srflp(i):
    L, F, best = i["lengths"], i["flows"], None
    if i.get("clearance") or "Cl" in TMP:  # the reader looks for "Cl" in the whole path it is given
        L = [x + 10 for x in L]
    for perm in itertools.permutations(range(len(L))):
        pos, x = {}, 0.0
        for d in perm:
            pos[d], x = x + L[d] / 2, x + L[d]
        tot = sum(F[a][b] * abs(pos[a] - pos[b]) for a, b in all_pairs(len(L)))
        best = tot if best is None else min(best, tot)
    return best


@st.composite
def s_psp(draw):
    # two shapes: anything small (1/3), or "dense" (2/3: 4-5 items, 7-9 periods, at most 3 idle periods, stocking costs small
    # or zero, change-over costs not closed): with few demands the diagrams are exact at every width and nothing is ever
    # merged; measured on the tree without the F13 repair over widths 1..16: 0 of 2800 feasible instances of the first shape
    # and about 1 in 200 of the second expose it, each at one or two widths only
    dense = draw(ints(0, 2)) > 0
    H, n = (draw(ints(7, 9)), draw(ints(4, 5))) if dense else (draw(ints(2, 8)), draw(ints(1, 4)))
    cell = st.tuples(ints(0, n - 1), ints(0, H - 1))
    cells = draw(st.lists(cell, unique=True, min_size=H - 3, max_size=H) if dense else st.lists(cell, unique=True, max_size=H))
    # change-over costs: the shipped benchmark files (resources/psp) do NOT all satisfy the triangle inequality, so neither
    # do these: kind 0 = anything, kind 1 = two-level costs (cheap chains next to expensive direct change-overs, F13),
    # kind 2 = closed under the triangle inequality
    kind = draw(ints(0, 1 if dense else 2))
    co = draw(fixed_list(fixed_list(st.sampled_from([0, 1, 7, 9]) if kind == 1 else ints(0, 9), n), n))
    co = [[0 if a == b else co[a][b] for b in range(n)] for a in range(n)]
    if kind == 2:
        for k in range(n):
            for a in range(n):
                for b in range(n):
                    co[a][b] = min(co[a][b], co[a][k] + co[k][b])
    stocking = draw(fixed_list(ints(0, 2), n) if dense and draw(st.booleans()) else fixed_list(st.just(0), n) if dense else fixed_list(ints(0, 5), n))
    return {"horizon": H, "changeover": co, "stocking": stocking,
            "demands": [[int((a, t) in cells) for t in range(H)] for a in range(n)]}


def r_psp(i):
    return "%d\n%d\n%d\n\n" % (i["horizon"], len(i["stocking"]), sum(map(sum, i["demands"]))) + rows(i["changeover"]) + "\n" + rows([i["stocking"]]) + "\n" + rows(i["demands"]) + "\n0\n"


def o_psp(i):
    """one machine, at most one unit per period, every demand (item, deadline) served by a unit produced no later than the
    deadline; cost = stocking * periods held + change-over between consecutive produced items (idle periods ignored)"""
    H, co, stock = i["horizon"], i["changeover"], i["stocking"]
    due = [[t for t in range(H) if row[t]] for row in i["demands"]]
    best = [None]

    def rec(t, plan, left, idle):
        if t == H:
            cost = 0
            for item, d in enumerate(due):
                made = [p for p in range(H) if plan[p] == item]
                if any(p > q for p, q in zip(made, d)):
                    return
                cost += stock[item] * sum(q - p for p, q in zip(made, d))
            seq = [x for x in plan if x >= 0]
            cost += sum(co[a][b] for a, b in zip(seq, seq[1:]))
            best[0] = cost if best[0] is None else min(best[0], cost)
            return
        for item in range(len(due)):
            if left[item]:
                left[item] -= 1
                rec(t + 1, plan + [item], left, idle)
                left[item] += 1
        if idle:
            rec(t + 1, plan + [-1], left, idle - 1)
    total = sum(map(len, due))
    if total <= H:
        rec(0, [], [len(d) for d in due], H - total)
    return best[0]


@st.composite
def s_alp(draw):
    n, k = draw(ints(1, 6)), draw(ints(1, 3))
    sep = metric_close(draw(fixed_list(fixed_list(ints(1, 6), k), k)))
    targets = sorted(draw(fixed_list(ints(0, 12), n)))
    classes, windows = draw(fixed_list(ints(0, k - 1), n)), draw(fixed_list(ints(0, 15), n))
    aircraft, last = [], {}
    for t, c, w in zip(targets, classes, windows):  # deadlines are monotone within a class
        last[c] = max(t + w, last.get(c, 0))
        aircraft.append([t, last[c], c])
    return {"runways": draw(ints(1, 2)), "aircraft": aircraft, "separation": sep}


def r_alp(i):
    return "%d %d %d\n" % (len(i["aircraft"]), len(i["separation"]), i["runways"]) + rows(i["aircraft"]) + rows(i["separation"])


def o_alp(i):
    """every aircraft lands on one runway, not before its target and not after its deadline, separated from the previous
    landing on that runway; cost = total delay. All runway assignments x all landing orders, earliest-time landing."""
    ac, sep, n = i["aircraft"], i["separation"], len(i["aircraft"])

    def one_runway(members):
        best = None
        for perm in itertools.permutations(members):
            now, prev, cost = None, None, 0
            for a in perm:
                t, latest, c = ac[a]
                land = t if prev is None else max(t, now + sep[ac[prev][2]][c])
                if land > latest:
                    break
                cost, now, prev = cost + land - t, land, a
            else:
                best = cost if best is None else min(best, cost)
        return best
    single = {m: one_runway([a for a in range(n) if m >> a & 1]) for m in range(1 << n)}
    best = None
    for assign in itertools.product(range(i["runways"]), repeat=n):
        parts = [single[sum(1 << a for a in range(n) if assign[a] == r)] for r in range(i["runways"])]
        if None not in parts:
            best = sum(parts) if best is None else min(best, sum(parts))
    return best


@st.composite
def s_sop(draw):
    n = draw(ints(3, 8))
    label = [0] + list(draw(st.permutations(range(1, n - 1)))) + [n - 1]  # hidden topological order -> job id
    before = [[False] * n for _ in range(n)]  # before[i][j]: job j must precede job i
    for a, b in all_pairs(n):
        if a == 0 or b == n - 1 or draw(ints(0, 3)) == 3:
            before[label[b]][label[a]] = True
    for m, a, b in itertools.product(range(n), repeat=3):  # transitive closure
        if before[a][m] and before[m][b]:
            before[a][b] = True
    w = draw(fixed_list(fixed_list(ints(0, 20), n), n))
    return {"dist": [[0 if a == b else -1 if before[a][b] else w[a][b] for b in range(n)] for a in range(n)]}


def r_sop(i):
    n = len(i["dist"])
    return "NAME: generated\nTYPE: SOP\nDIMENSION: %d\nEDGE_WEIGHT_TYPE: EXPLICIT\nEDGE_WEIGHT_FORMAT: FULL_MATRIX\nEDGE_WEIGHT_SECTION\n%d\n" % (n, n) + rows(i["dist"]) + "EOF\n"


def o_sop(i):
    d, n, best = i["dist"], len(i["dist"]), None
    for perm in itertools.permutations(range(1, n - 1)):
        seq = (0,) + perm + (n - 1,)
        pos = {v: k for k, v in enumerate(seq)}
        if any(d[a][b] == -1 and pos[b] > pos[a] for a in range(n) for b in range(n) if a != b):
            continue
        c = sum(d[a][b] for a, b in zip(seq, seq[1:]))
        best = c if best is None else min(best, c)
    return best


@st.composite
def s_tsptw(draw):
    n = draw(ints(2, 7))
    w = draw(fixed_list(fixed_list(ints(1, 9), n), n))
    dist = [[0 if a == b else w[a][b] for b in range(n)] for a in range(n)]
    # 393 of the 467 shipped benchmark files (resources/tsptw) violate the triangle inequality, by up to 33 time units:
    # such distances are part of the input domain (F14); half of the instances are closed under it nevertheless
    if draw(st.booleans()):
        dist = metric_close(dist)
    starts, spans = draw(fixed_list(ints(0, 20), n - 1)), draw(fixed_list(ints(5, 40), n - 1))
    return {"dist": dist, "windows": [[0, 200]] + [[e, e + s] for e, s in zip(starts, spans)]}


def r_tsptw(i):
    return "%d\n" % len(i["dist"]) + rows(i["dist"]) + rows(i["windows"])


def is_metric(d):
    n = len(d)
    return all(d[a][a] == 0 for a in range(n)) and all(d[a][b] <= d[a][m] + d[m][b] for a, b, m in itertools.product(range(n), repeat=3))


def o_tsptw(i):
    d, tw, best = i["dist"], i["windows"], None
    for perm in itertools.permutations(range(1, len(d))):
        now, cur = 0, 0
        for v in perm + (0,):
            now += d[cur][v]
            if now > tw[v][1]:
                break
            now, cur = max(now, tw[v][0]), v
        else:
            best = now if best is None else min(best, now)
    return best


_GOLOMB = {}


def o_golomb(i):
    """shortest ruler with `size` marks whose pairwise differences are all distinct (printed as -length)"""
    n = i["size"]
    if n not in _GOLOMB:
        best = [n * n]

        def rec(marks, diffs):
            left = n - len(marks)
            if left == 0:
                best[0] = min(best[0], marks[-1])
                return
            for x in range(marks[-1] + 1, best[0] - left * (left - 1) // 2):
                new = {x - m for m in marks}
                if len(new) == len(marks) and not (new & diffs):
                    rec(marks + [x], diffs | new)
        rec([0], set())
        _GOLOMB[n] = -best[0]
    return _GOLOMB[n]


Spec = collections.namedtuple("Spec", "strategy render oracle nvars file_flag threads nt_min")
SPECS = {
    "knapsack": Spec(s_knapsack, r_knapsack, o_knapsack, lambda i: len(i["items"]), False, True, 4),
    "misp": Spec(s_misp, r_misp, o_misp, lambda i: i["n"], False, True, 4),
    "max2sat": Spec(s_max2sat, r_max2sat, o_max2sat, lambda i: i["n"], True, False, 4),
    "mcp": Spec(s_mcp, r_mcp, o_mcp, lambda i: i["n"], True, False, 4),
    "lcs": Spec(s_lcs, r_lcs, o_lcs, lambda i: min(map(len, i["strings"])), False, True, 4),
    "golomb": Spec(None, lambda i: None, o_golomb, lambda i: i["size"] - 1, False, False, 4),
    "sop": Spec(s_sop, r_sop, o_sop, lambda i: len(i["dist"]) - 1, False, True, 5),
    "tsptw": Spec(s_tsptw, r_tsptw, o_tsptw, lambda i: len(i["dist"]), False, True, 5),
    "srflp": Spec(s_srflp, r_srflp, o_srflp, lambda i: len(i["lengths"]), False, True, 5),
    "talentsched": Spec(s_talentsched, r_talentsched, o_talentsched, lambda i: len(i["durations"]), False, True, 4),
    "psp": Spec(s_psp, r_psp, o_psp, lambda i: i["horizon"], False, True, 4),
    "alp": Spec(s_alp, r_alp, o_alp, lambda i: len(i["aircraft"]), False, True, 4),
}
EXAMPLES = list(SPECS)


def exhaustive_instances(ex):
    """the tiny enumerated part: every graph on <= 3 vertices with unit weights"""
    for n in (1, 2, 3):
        for m in range(1 << len(all_pairs(n))):
            edges = [list(p) for k, p in enumerate(all_pairs(n)) if m >> k & 1]
            if ex == "misp":
                yield {"n": n, "weights": [1] * n, "edges": edges, "all_node_lines": False}
            if ex == "mcp":
                yield {"n": n, "edges": [e + [1] for e in edges], "comment": False}


# ----------------------------------------------------------------------------------------------------------------------
# running one binary once, verdict, known-finding signatures
# ----------------------------------------------------------------------------------------------------------------------
def argv(ex, path, inst, width, threads):
    a = [BIN + "/" + ex] + ([str(inst["size"])] if ex == "golomb" else ["--file", path] if SPECS[ex].file_flag else [path])
    return a + (["--width", str(width)] if width is not None else []) + (["--threads", str(threads)] if threads is not None else [])


RUN_ENV = dict(os.environ, RUST_BACKTRACE="0")  # symbolising a backtrace makes every panic 30x slower


def run_binary(cmd, timeout):
    """-> dict(rc, out, err, timeout); a timed-out run is repeated once"""
    for _attempt in (1, 2):
        try:
            p = subprocess.run(cmd, capture_output=True, text=True, errors="replace", timeout=timeout, env=RUN_ENV)
            return {"rc": p.returncode, "out": p.stdout, "err": p.stderr, "timeout": False}
        except subprocess.TimeoutExpired as e:
            dec = lambda b: b.decode(errors="replace") if isinstance(b, bytes) else (b or "")
            res = {"rc": None, "out": dec(e.stdout), "err": dec(e.stderr), "timeout": True}
            if "panicked" in res["err"]:  # a panic followed by a hang is a crash, no need to wait again
                break
    return res


def parse_output(ex, out):
    """-> (printed objective as float or None for tsptw's '+inf', proved/not aborted) or None if unparsable"""
    if ex == "tsptw":
        obj, flag = re.search(r"^lower bnd:\s*(\S+)", out, re.M), re.search(r"^status\s*:\s*(\S+)", out, re.M)
        if not obj or not flag:
            return None
        return (None if obj.group(1) == "+inf" else float(obj.group(1))), flag.group(1) == "Proved"
    obj, flag = re.search(r"^Objective:\s*(\S+)", out, re.M), re.search(r"^Aborted:\s*(\S+)", out, re.M)
    if not obj or not flag:
        return None
    return float(obj.group(1)), flag.group(1) == "false"


def verdict(ex, expected, res):
    """-> None if the run is right, else (kind, message); kind in timeout / crash / garbled / aborted / wrong"""
    def first(s):  # the panic location and message, else the beginning of stderr
        lines = [l.strip() for l in s.splitlines()]
        at = next((k for k, l in enumerate(lines) if "panicked" in l), None)
        return re.sub(r"' \(\d+\) panicked", "' panicked", " ".join(lines[at:at + 2])) if at is not None else s.strip()[:200]
    if "panicked" in res["err"] or "panicked" in res["out"] or (res["rc"] not in (0, None)):
        return "crash", "exit code %s%s: %s" % (res["rc"], " then hang" if res["timeout"] else "", first(res["err"]))
    if res["timeout"]:
        return "timeout", "no answer within the watchdog delay, twice"
    parsed = parse_output(ex, res["out"])
    if parsed is None or "not a solution" in res["out"]:
        return "garbled", "unexpected output %r" % res["out"][-300:]
    printed, exact = parsed
    if not exact:
        return "aborted", "search reported as aborted / not proved (printed %s)" % printed
    want = expected if ex == "tsptw" else (-1 if expected is None else expected)
    if (printed is None) != (want is None) or (printed is not None and abs(printed - want) >= 1e-6):
        show = lambda v: "+inf (infeasible)" if v is None else "%g" % v
        return "wrong", "printed %s, exhaustive enumeration gives %s%s" % (show(printed), show(want), " (infeasible: sentinel -1)" if expected is None and ex != "tsptw" else "")
    return None


def known_signature(ex, inst, width, expected, res, kind):
    """-> id of the finding whose signature this failing run matches, or None. A signature suppresses a failure only when
    KNOWN_FINDINGS.txt lists `known: property=C16 id=<that id>`; the *-small-width ones are not in the design (found by this check)."""
    parsed = parse_output(ex, res["out"])
    worse = kind == "wrong" and expected is not None and (parsed[0] is None or parsed[0] > expected)  # minimisation examples
    if ex == "max2sat" and kind == "wrong" and parsed[0] < expected:  # sub-optimal objective with Aborted: false
        if width == 1 and any(x == -y for _, x, y in inst["clauses"]):
            return "F7"  # --width 1, instance with a tautological clause
        if width is not None:
            return "max2sat-small-width"  # same symptom at --width 1/2/3 without a tautology, or at --width 2/3 with one
    if ex in ("alp", "psp", "srflp") and kind == "crash" and expected is None and "attempt to negate with overflow" in res["err"]:
        return "F8"  # infeasible instance: -isize::MIN when printing the bounds
    if ex == "tsptw" and worse and is_metric(inst["dist"]):
        return "F9"  # metric instance, status Proved, printed tour cost worse than the optimum (or no tour found)
    if ex in ("sop", "talentsched") and worse and (width is None or width <= 2):
        return ex + "-small-width"  # sub-optimal cost with Aborted: false at --width 1/2/default
    return None


def load_known():
    known = {}
    if os.path.exists(KNOWN_FILE):
        for line in open(KNOWN_FILE):
            if line.strip().startswith("known:"):
                words = line.strip()[len("known:"):].split()
                kv = dict(w.split("=", 1) for w in words if w.startswith(("property=", "id=")))
                if kv.get("property") == "C16" and "id" in kv:
                    known[kv["id"]] = " ".join(w for w in words if not w.startswith(("property=", "id=")))
    return known


class C16Failure(Exception):
    def __init__(self, violation):
        super().__init__(violation["reason"])
        self.violation = violation


class Ctx:
    """per-example statistics and the state needed to keep shrinking cheap and deterministic"""
    def __init__(self, ex, tier, known, server=None):
        self.ex, self.tier, self.known, self.server = ex, tier, known, server
        self.discrepancies = []
        self.threads = ((1, 2) if tier == "quick" else (1, 2, 4)) if SPECS[ex].threads else (None,)
        self.combos = [(w, t) for w in WIDTHS for t in self.threads]
        if server is not None:  # thread counts alternate (by the hash of the instance) except at the default width
            self.combos = [(None, t) for t in self.threads]
        self.timeout = RUN_TIMEOUT_S[tier]
        self.dir = "%s/%s" % (TMP, ex)
        os.makedirs(self.dir, exist_ok=True)
        self.evaluations = self.instances = self.excluded = 0
        self.nontrivial, self.labels, self.samples = set(), collections.Counter(), []
        self.known_hits, self.known_examples, self.inconclusive = collections.Counter(), {}, []
        self.failed, self.target, self.cache, self.shrink_deadline, self.sampled = False, None, {}, None, set()

    def result(self):
        keys = "ex evaluations instances excluded nontrivial labels samples known_hits known_examples inconclusive discrepancies"
        return {k: getattr(self, k) for k in keys.split()}


def file_id(ex, inst, text):
    """identity of an instance = name of its file: sha1 of the text (srflp: prefixed by "Cl" for the clearance variant,
    which the reader recognises by the file name)"""
    return ("Cl" if ex == "srflp" and inst.get("clearance") else "") + sha(ex + "\n" + (text if text is not None else json.dumps(inst)))


def make_case(ex, inst, text, width, threads, expected):
    return {"example": ex, "instance": inst, "file_text": text, "width": width, "threads": threads, "expected": expected}


def run_case(ctx, ex, inst, text, h, width, threads, expected):
    """one sub-process run -> (kind, message, known id or None, res); kind None when the run is right"""
    path = "%s/%s.txt" % (ctx.dir, h)
    cmd = argv(ex, path, inst, width, threads)
    if ctx.server is not None:
        res = ctx.server.run(cmd[1:], ctx.timeout)
        v = verdict(ex, expected, res)
        if v is None:
            return None, None, None, res
        if v[0] != "timeout":
            # the real example binary decides: a failure seen in-process counts only if a sub-process run reproduces it
            # (a multi-threaded run gets several attempts); otherwise it is a discrepancy of the transport, listed as such
            for _attempt in range(1 if threads in (None, 1) else 6):
                res2 = run_binary(cmd, ctx.timeout)
                v2 = verdict(ex, expected, res2)
                if v2 is not None and v2[0] != "timeout":
                    res, v = res2, v2
                    break
            else:
                ctx.labels["inproc-only-discrepancy:" + ex] += 1
                if len(ctx.discrepancies) < 5:
                    ctx.discrepancies.append({"case": make_case(ex, inst, text, width, threads, expected), "reason": "in-process only: %s: %s" % v})
                return None, None, None, res
    else:
        res = run_binary(cmd, ctx.timeout)
        v = verdict(ex, expected, res)
        if v is None:
            return None, None, None, res
    fid = known_signature(ex, inst, width, expected, res, v[0]) if v[0] != "timeout" else None
    return v[0], v[1], fid, res


def check_instance(ctx, inst):
    """raises C16Failure (from this single place: hypothesis tells failures apart by their origin) on the first unsuppressed failure"""
    violation = examine_instance(ctx, inst)
    if violation is not None:
        raise C16Failure(violation)


def examine_instance(ctx, inst):
    """runs every width x threads combination on one instance -> the first unsuppressed failure as a violation record, or None.
    After the first failure of the Hypothesis test (shrinking), statistics are frozen, only the failing combination is run
    and only the same kind of failure (and same signature) counts, results are cached, and a time budget bounds the shrink phase."""
    ex, spec = ctx.ex, SPECS[ctx.ex]
    text = spec.render(inst)
    h = file_id(ex, inst, text)
    shrinking = ctx.failed
    if shrinking:
        if h in ctx.cache or time.time() > ctx.shrink_deadline:
            return ctx.cache.get(h)
    expected = spec.oracle(inst)
    nvars = spec.nvars(inst)
    path = "%s/%s.txt" % (ctx.dir, h)
    if text is not None:
        with open(path, "w") as f:
            f.write(text)
    try:
        if not shrinking:
            ctx.instances += 1
            ctx.labels[("inproc_instances:" if ctx.server is not None else "instances:") + ex] += 1
            ctx.labels["infeasible_instances:" + ex] += expected is None
            ctx.labels["nvars:%s" % min(nvars, 13)] += 1
        # two more widths per instance, between the tiny ones and the default: a relaxation that is only slightly unsound shows
        # when the diagrams are *almost* exact (F13 only showed at widths 6, 7 and default on its instance). They are a pure
        # function of the instance text, so that replay and shrinking see the same runs.
        hv = int(h[-12:], 16)
        mid = [(4 + hv % 5, ctx.threads[(hv >> 8) % len(ctx.threads)]), (9 + (hv >> 16) % 8, ctx.threads[(hv >> 24) % len(ctx.threads)])]
        if ctx.server is not None:
            ws = list(INPROC_WIDTHS[:-1]) + [9 + (hv >> 16) % 8, 9 + ((hv >> 16) % 8 + 1 + (hv >> 20) % 7) % 8]
            mid = [(w, ctx.threads[(hv >> k) % len(ctx.threads)]) for k, w in enumerate(ws)]
        for width, threads in ([ctx.target[:2]] if shrinking else ctx.combos + mid):
            kind, msg, fid, res = run_case(ctx, ex, inst, text, h, width, threads, expected)
            if not shrinking:
                ctx.evaluations += 1
                ctx.labels["runs:" + ex] += 1
                ctx.labels["width:%s" % (width or "default")] += 1
                ctx.labels["threads:%s" % (threads or "n/a")] += 1
                ctx.labels["transport:%s" % ("in-process server" if ctx.server is not None else "sub-process")] += 1
                if nvars >= spec.nt_min and width is not None:
                    ctx.nontrivial.add("%s/%s/%s/%s" % (ex, h, width, threads))
                    if len(ctx.samples) < 2 and kind is None and h not in ctx.sampled and ctx.instances > (4, 40)[len(ctx.samples)]:
                        ctx.sampled.add(h)
                        ctx.samples.append(dict(make_case(ex, inst, text, width, threads, expected), printed=parse_output(ex, res["out"])[0]))
            if kind is None:
                continue
            case = make_case(ex, inst, text, width, threads, expected)
            cli = " ".join(["<file>" if a == path else os.path.basename(a) if a.startswith(BIN) else a for a in argv(ex, path, inst, width, threads)])
            if kind == "timeout":
                if not shrinking:
                    ctx.inconclusive.append({"case": case, "reason": "%s: %s" % (cli, msg)})
                continue
            if fid is not None and fid in ctx.known:
                if not shrinking:
                    ctx.excluded += 1
                    ctx.known_hits[fid] += 1
                    ctx.known_examples.setdefault(fid, dict(case, reason="%s: %s" % (cli, msg)))
                continue
            if shrinking and (kind, fid) != ctx.target[2:]:
                continue
            reason = "%s: %s%s" % (cli, msg, " [matches the signature of %s, which is not listed as known]" % fid if fid else "")
            violation = {"property": "C16", "part": ex, "reason": reason, "case": case}
            if not ctx.failed:
                ctx.failed, ctx.target, ctx.shrink_deadline = True, (width, threads, kind, fid), time.time() + SHRINK_BUDGET_S[ctx.tier]
            ctx.cache[h] = violation
            return violation
        if shrinking:
            ctx.cache[h] = None
        return None
    finally:
        if text is not None and os.path.exists(path):
            os.remove(path)


def worker(job):
    """everything for one example, in its own process: enumerated part, then the Hypothesis search"""
    ex, tier, known, server_bin = job
    ctx, violations, t0 = Ctx(ex, tier, known), [], time.time()
    try:
        fixed = [{"size": n} for n in GOLOMB_SIZES[tier]] if ex == "golomb" else list(exhaustive_instances(ex))
        for inst in fixed:
            check_instance(ctx, inst)
            ctx.labels["enumerated_instances:" + ex] += 1
    except C16Failure as f:
        violations.append(f.violation)
    def search(ctx, n, seed_):
        @seed(seed_)
        @settings(max_examples=n, database=None, deadline=None, derandomize=False, suppress_health_check=list(HealthCheck),
                  phases=[Phase.generate, Phase.shrink], print_blob=False, verbosity=Verbosity.quiet, report_multiple_bugs=False)
        @given(SPECS[ex].strategy(big=True) if ctx.server is not None and ex in INPROC_BIG else SPECS[ex].strategy())
        def test(inst):
            check_instance(ctx, inst)
        try:
            test()
        except C16Failure as f:
            violations.append(f.violation)
        except Exception as e:  # e.g. hypothesis' Flaky when a multi-threaded failure does not repeat: keep the smallest one seen
            seen = sorted((v for v in ctx.cache.values() if v), key=lambda v: len(v["case"]["file_text"] or ""))
            if not seen:
                raise
            violations.append(dict(seen[0], reason=seen[0]["reason"] + " [did not repeat on every re-run: %s]" % type(e).__name__))

    base_seed = SEED + zlib.crc32(ex.encode()) % 100000
    if SPECS[ex].strategy is not None and not violations and not os.environ.get("VERIF_C16_INPROC_ONLY"):  # (that variable: calibration runs only)
        search(ctx, QUICK_EXAMPLES[ex] * (1 if tier == "quick" else 10), base_seed)
    res = ctx.result()
    t1 = time.time()
    # second part: the same example program as an in-process server (c16/inproc.py), many more instances, every width 1..8
    if SPECS[ex].strategy is not None and not violations and server_bin is not None:
        ctx2 = Ctx(ex, tier, known, server=inproc.Server(server_bin, RUN_ENV))
        try:
            search(ctx2, INPROC_EXAMPLES[ex] * (1 if tier == "quick" else 10), base_seed + 7919)
        finally:
            ctx2.server.stop()
        ctx2.labels["inproc_server_starts:" + ex] += ctx2.server.starts
        r2 = ctx2.result()
        res["evaluations"] += r2["evaluations"]
        res["inproc_instances"] = r2["instances"]
        res["excluded"] += r2["excluded"]
        res["nontrivial"] |= r2["nontrivial"]
        res["labels"].update(r2["labels"])
        res["samples"] += r2["samples"][:1]
        res["known_hits"].update(r2["known_hits"])
        for k, v in r2["known_examples"].items():
            res["known_examples"].setdefault(k, v)
        res["inconclusive"] += r2["inconclusive"]
        res["discrepancies"] += r2["discrepancies"]
    return dict(res, violations=violations, wall=time.time() - t0, wall_inproc=time.time() - t1)


# ----------------------------------------------------------------------------------------------------------------------
# replay of a recorded case
# ----------------------------------------------------------------------------------------------------------------------
def replay(body, known, tier):
    """-> (verdict, detail); verdict in pass / known / fail / inconclusive / error. Re-runs the recorded file text with
    every recorded width x threads (each may be a scalar or a list)"""
    case = body.get("case", {})
    ex, inst = case.get("example", body.get("part")), case.get("instance")
    if ex not in SPECS or inst is None:
        return "error", "not a C16 case (example %r)" % ex
    ctx = Ctx(ex, tier, known)
    text = case.get("file_text") if "file_text" in case else SPECS[ex].render(inst)
    expected = SPECS[ex].oracle(inst)
    if "expected" in case and case["expected"] != expected and not (None not in (expected, case["expected"]) and abs(expected - case["expected"]) < 1e-6):
        return "error", "recorded optimum %r differs from the oracle's %r for the recorded instance" % (case["expected"], expected)
    h = file_id(ex, inst, text)
    path = "%s/%s.txt" % (ctx.dir, h)
    if text is not None:
        with open(path, "w") as f:
            f.write(text)
    as_list = lambda v: v if isinstance(v, list) else [v]
    outcome = ("pass", "")
    for width, threads, _ in itertools.product(as_list(case.get("width")), as_list(case.get("threads")), range(int(case.get("repeat", 1)))):
        kind, msg, fid, _res = run_case(ctx, ex, inst, text, h, width, threads, expected)
        where = "%s width=%s threads=%s" % (ex, width, threads)
        if kind == "timeout":
            outcome = ("inconclusive", "%s: %s" % (where, msg)) if outcome[0] in ("pass", "known") else outcome
        elif kind is not None and fid is not None and fid in known:
            outcome = ("known", fid) if outcome[0] == "pass" else outcome
        elif kind is not None:
            return "fail", "%s: %s%s" % (where, msg, " [matches the signature of %s, which is not listed as known]" % fid if fid else "")
    return outcome


# ----------------------------------------------------------------------------------------------------------------------
def build():
    env = dict(os.environ, CARGO_TARGET_DIR=TARGET, CARGO_NET_OFFLINE="true")
    try:
        p = subprocess.run(["cargo", "build", "--examples", "--offline"], cwd=CRATE, env=env, capture_output=True, text=True, timeout=1800)
        err = None if p.returncode == 0 else "\n".join(p.stderr.splitlines()[-30:])
    except Exception as e:  # cargo missing, timeout
        err = repr(e)
    missing = [e for e in EXAMPLES if not os.access("%s/%s" % (BIN, e), os.X_OK)] if err is None else []
    if err is not None or missing:
        print(err or "missing binaries: %s" % missing)
        print("HARNESS-ERROR: the example programs do not build from /repo's working tree (cargo build --examples --offline)")
        sys.exit(2)
    # the same programs as servers (in-process part); an example whose server cannot be generated or built is skipped there
    try:
        return inproc.build([e for e in EXAMPLES if SPECS[e].strategy is not None], CRATE, SRV_DIR)
    except Exception as e:
        return {}, {"*": "server crate: %r" % e}


def write_replay(v):
    os.makedirs(OUT + "/replays", exist_ok=True)
    s = json.dumps(v, indent=1, sort_keys=True)
    path = "%s/replays/C16-%s.json" % (OUT, sha(s))
    with open(path, "w") as f:
        f.write(s + "\n")
    return path


def main(args=None):
    ap = argparse.ArgumentParser()
    ap.add_argument("--tier", choices=["quick", "thorough"], default=os.environ.get("VERIF_TIER") or "quick")
    ap.add_argument("--replay")
    ap.add_argument("--only", help="comma separated example names")
    ap.add_argument("--jobs", type=int, default=12)
    a = ap.parse_args(args)
    only = a.only.split(",") if a.only else EXAMPLES
    if any(e not in SPECS for e in only):
        print("HARNESS-ERROR: unknown example in --only (known: %s)" % ",".join(EXAMPLES))
        return 2
    t0, known = time.time(), load_known()
    os.makedirs(TMP, exist_ok=True)
    try:
        servers = build()
        if a.replay:
            verdict_, detail = replay(json.load(open(a.replay)), known, a.tier)
            if verdict_ == "pass":
                print("replay %s: property C16 holds on this case" % a.replay)
            elif verdict_ == "known":
                print("KNOWN-FINDING: property=C16 id=%s (replayed case matches a listed known finding)" % detail)
            elif verdict_ == "fail":
                print("replay %s: %s" % (a.replay, detail))
                print("VIOLATION property=C16 replay=%s" % a.replay)
            else:
                print("replay %s: %s" % (a.replay, detail))
                print(("INCONCLUSIVE: " if verdict_ == "inconclusive" else "HARNESS-ERROR: ") + detail)
            return {"pass": 0, "known": 0, "fail": 1}.get(verdict_, 2)
        return run_check(a.tier, only, a.jobs, known, t0, servers)
    finally:
        shutil.rmtree(TMP, ignore_errors=True)


def run_check(tier, only, jobs, known, t0, servers=({}, {})):
    server_bins, server_skipped = servers
    violations, errors, inconclusive = [], [], []  # violations: (violation dict, replay path or None)
    known_hits, known_examples, regress_known = collections.Counter(), {}, 0
    for path in sorted(glob.glob(VERIF + "/regress/C16-*.json")):
        body = json.load(open(path))
        if body.get("case", {}).get("example", body.get("part")) not in only:
            continue
        verdict_, detail = replay(body, known, tier)
        if verdict_ == "fail":
            violations.append(({"property": "C16", "part": "regress", "reason": "%s: %s" % (os.path.basename(path), detail), "case": body.get("case")}, path))
        elif verdict_ == "known":
            known_hits[detail] += 1
            regress_known += 1
        elif verdict_ == "inconclusive":
            inconclusive.append("%s: %s" % (path, detail))
        elif verdict_ == "error":
            errors.append("%s: %s" % (path, detail))
    results = []
    with multiprocessing.Pool(max(1, min(jobs, len(only)))) as pool:
        order = sorted(only, key=lambda e: -QUICK_EXAMPLES.get(e, 10 ** 6))
        pending = [(e, pool.apply_async(worker, ((e, tier, known, server_bins.get(e)),))) for e in order]
        for e, p in pending:
            try:
                results.append(p.get())
            except Exception as exc:
                errors.append("worker for %s failed: %r" % (e, exc))
    evaluations, excluded = 0, regress_known
    nontrivial, labels, samples, discrepancies = set(), collections.Counter(), [], []
    for r in sorted(results, key=lambda r: EXAMPLES.index(r["ex"])):
        evaluations, excluded = evaluations + r["evaluations"], excluded + r["excluded"]
        nontrivial |= r["nontrivial"]
        labels.update(r["labels"])
        known_hits.update(r["known_hits"])
        samples += r["samples"]
        for k, v in r["known_examples"].items():
            known_examples.setdefault(k, v)
        violations += [(v, None) for v in r["violations"]]
        inconclusive += ["%s: %s" % (r["ex"], i["reason"]) for i in r["inconclusive"]]
        discrepancies += r["discrepancies"]
        print("  %-11s %5d + %6d instances (sub-process + in-process) %7d runs %6d non-trivial %4d excluded-known %2d violation(s) %6.1fs (in-process part %.1fs)" % (
            r["ex"], r["instances"], r.get("inproc_instances", 0), r["evaluations"], len(r["nontrivial"]), r["excluded"], len(r["violations"]), r["wall"], r.get("wall_inproc", 0.0)))
    for e, why in sorted(server_skipped.items()):
        print("  note: in-process part skipped for %s: %s" % (e, why))
    for d in discrepancies[:5]:
        print("  note: %s (not reproduced by the real binary; case: %s width %s threads %s)" % (d["reason"], d["case"]["example"], d["case"]["width"], d["case"]["threads"]))
    known_lines = ["KNOWN-FINDING: property=C16 id=%s %s [hit %d time(s)]" % (k, text, known_hits.get(k, 0)) for k, text in known.items()]
    wall = time.time() - t0
    evidence = {
        "property_id": "C16", "tier": tier, "seed": SEED, "level": "exploration",
        "coverage": {"evaluations": evaluations, "distinct_nontrivial": len(nontrivial), "rule": RULE, "samples": samples,
                     "label_histogram": dict(sorted(labels.items())), "excluded_known": excluded,
                     "known_finding_hits": {k: known_hits.get(k, 0) for k in known}, "known_finding_examples": known_examples,
                     "known_findings_listed": known_lines, "examples_run": only, "max_examples": {e: QUICK_EXAMPLES[e] * (1 if tier == "quick" else 10) for e in only if e in QUICK_EXAMPLES},
                     "exhaustive_subspaces": {"golomb sizes": list(GOLOMB_SIZES[tier]), "misp/mcp": "all graphs on <= 3 unit-weight vertices"},
                     "inproc_max_examples": {e: INPROC_EXAMPLES[e] * (1 if tier == "quick" else 10) for e in only if e in INPROC_EXAMPLES and e in server_bins},
                     "inproc_skipped": server_skipped, "inproc_only_discrepancies": discrepancies[:10],
                     "inconclusive_timeouts": len(inconclusive)},
        "assumptions": ASSUMPTIONS, "wall_s": round(wall, 1), "violations": len(violations)}
    os.makedirs(OUT + "/evidence", exist_ok=True)
    with open(OUT + "/evidence/C16.json", "w") as f:
        f.write(json.dumps(evidence, indent=1) + "\n")
    try:
        import jsonschema
        jsonschema.validate(json.load(open(OUT + "/evidence/C16.json")), json.load(open(SCHEMA)))
    except Exception as e:
        errors.append("%s/evidence/C16.json does not validate against %s: %s" % (OUT, SCHEMA, str(e).splitlines()[0]))
    for line in known_lines:
        print(line)
    for v, path in violations:
        path = path or write_replay(v)
        print("violation in example '%s': %s" % (v["part"], v["reason"]))
        if v["case"] and v["case"].get("file_text"):
            print("  instance file:\n" + "".join("    | %s\n" % l for l in v["case"]["file_text"].splitlines()), end="")
        print("VIOLATION property=C16 replay=%s" % path)
    for e in errors:
        print("HARNESS-ERROR: %s" % e)
    for i in inconclusive[:5]:
        print("INCONCLUSIVE: %s" % i)
    print("C16 [%s] seed=%d: %d evaluations, %d distinct non-trivial, %d excluded as known, %d violation(s), %.1fs" % (
        tier, SEED, evaluations, len(nontrivial), excluded, len(violations), wall))
    return 1 if violations else 2 if (errors or inconclusive) else 0


if __name__ == "__main__":
    sys.stdout.reconfigure(line_buffering=True)
    sys.exit(main())
