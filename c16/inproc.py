"""C16, in-process transport: the same example programs, compiled as *servers*.

The sub-process part of the check spawns one process per run (about 10 ms each), which bounds the number of instances a
tier can look at. This module builds, from the working tree, one server binary per example whose crate root is the
example's own `main.rs`, textually transformed in three places only:

  * `mod x;`            ->  `#[path = "<repo>/ddo/examples/<ex>/x.rs"] mod x;`   (the file is generated elsewhere)
  * `fn main()`         ->  `fn verif_example_main()`
  * `<Args>::parse()`   ->  `<Args>::parse_from(verif_srv::argv())`                 (clap: same parser, explicit argv)

and an appended `main` that reads one argument vector per line on stdin, calls the example's own main function with it
inside `catch_unwind`, and terminates the output of each run with a marker line. Everything the property names (instance
parser, model, merge, arc relaxation, rough bound, dominance, ranking) *and* the example's own set-up and printing code run
unchanged; only process start-up is saved. Profile: optimised, with overflow checks and debug assertions on (the dev-profile
binaries of the sub-process part have them on as well).

If the transformation does not apply to an example (its main no longer has exactly one `fn main()` and one `::parse()`),
or the server does not build, the in-process part is skipped for that example and the evidence says so: the sub-process
part remains the deciding check. A failure seen in-process is reported only after the real example binary (sub-process)
has reproduced it; otherwise it is counted as `inproc-only-discrepancy` and listed, never reported as a violation.
"""
import os, re, select, shutil, subprocess, tempfile, time

MARK = "###VERIF-END"
RECYCLE = 1000

SERVER_TAIL = r'''
// ---------------------------------------------------------------------------------------------------------------------
// appended by /verif/c16/inproc.py: request loop around the example's own main function
// ---------------------------------------------------------------------------------------------------------------------
mod verif_srv {
    use std::cell::RefCell;
    thread_local! { static ARGV: RefCell<Vec<String>> = RefCell::new(vec![]); }
    pub fn argv() -> Vec<String> { ARGV.with(|a| a.borrow().clone()) }
    pub fn set(v: Vec<String>) { ARGV.with(|a| *a.borrow_mut() = v) }
    pub static PANICS: std::sync::Mutex<Vec<String>> = std::sync::Mutex::new(Vec::new());
}
fn main() {
    use std::io::{BufRead, Write};
    std::panic::set_hook(Box::new(|info| {
        let t = std::thread::current();
        let msg = format!("thread '{}' {}", t.name().unwrap_or("?"), info).replace('\n', " ");
        if let Ok(mut p) = verif_srv::PANICS.lock() { p.push(msg); }
    }));
    let stdin = std::io::stdin();
    let mut line = String::new();
    loop {
        line.clear();
        match stdin.lock().read_line(&mut line) { Ok(0) | Err(_) => break, _ => {} }
        let args: Vec<String> = line.trim_end_matches('\n').split('\t').map(String::from).collect();
        verif_srv::set(args);
        if let Ok(mut p) = verif_srv::PANICS.lock() { p.clear(); }
        let r = std::panic::catch_unwind(|| verif_example_main());
        let panics = verif_srv::PANICS.lock().map(|p| p.join(" || ")).unwrap_or_default();
        let out = std::io::stdout();
        let mut out = out.lock();
        let _ = match r {
            Ok(_) if panics.is_empty() => writeln!(out, "\n###VERIF-END ok"),
            Ok(_) => writeln!(out, "\n###VERIF-END panic {}", panics),
            Err(_) => writeln!(out, "\n###VERIF-END panic {}", if panics.is_empty() { "panicked (no message)".to_string() } else { panics }),
        };
        let _ = out.flush();
    }
}
'''


def transform(ex, crate):
    """-> (source text, None) or (None, reason)"""
    d = "%s/examples/%s" % (crate, ex)
    try:
        src = open(d + "/main.rs").read()
    except OSError as e:
        return None, "cannot read main.rs: %s" % e

    def mod_path(m):
        name = m.group(3)
        f = "%s/%s.rs" % (d, name) if os.path.exists("%s/%s.rs" % (d, name)) else "%s/%s/mod.rs" % (d, name)
        return '%s#[path = "%s"] %smod %s;' % (m.group(1), f, m.group(2) or "", name)
    src = re.sub(r"(?m)^([ \t]*)(pub(?:\([a-z]+\))?[ \t]+)?mod[ \t]+(\w+)[ \t]*;", mod_path, src)
    src, n_main = re.subn(r"(?m)^(?:pub(?:\([a-z]+\))?[ \t]+)?fn[ \t]+main[ \t]*\([ \t]*\)", "fn verif_example_main()", src)
    src, n_parse = re.subn(r"\b(\w+)::parse\(\)", r"\1::parse_from(verif_srv::argv())", src)
    if n_main != 1 or n_parse != 1:
        return None, "main.rs has %d `fn main()` and %d `::parse()` (exactly one of each expected)" % (n_main, n_parse)
    return src + SERVER_TAIL, None


def dep_sections(crate):
    """the [dependencies] and [dev-dependencies] of ddo, verbatim (examples may use any of them)"""
    out, keep = [], False
    for l in open(crate + "/Cargo.toml"):
        if l.startswith("["):
            keep = l.strip() in ("[dependencies]", "[dev-dependencies]")
            continue
        if keep and l.strip() and not l.strip().startswith("#"):
            out.append(l.rstrip("\n"))
    seen, uniq = set(), []
    for l in out:
        k = l.split("=")[0].strip()
        if k not in seen:
            seen.add(k)
            uniq.append(l)
    return "\n".join(uniq)


def build(examples, crate, srv_dir):
    """generates and builds the server crate -> ({example: path of its server binary}, {example: why it is skipped})"""
    skipped, ok = {}, []
    os.makedirs(srv_dir + "/src/bin", exist_ok=True)
    for f in os.listdir(srv_dir + "/src/bin"):
        os.remove("%s/src/bin/%s" % (srv_dir, f))
    for ex in examples:
        src, why = transform(ex, crate)
        if src is None:
            skipped[ex] = why
            continue
        path = "%s/src/bin/%s.rs" % (srv_dir, ex)
        with open(path, "w") as f:
            f.write(src)
        ok.append(ex)
    toml = ('[package]\nname = "c16srv"\nversion = "0.0.0"\nedition = "2021"\nautobins = true\n\n[workspace]\n\n[dependencies]\n'
            'ddo = { path = "%s" }\n%s\n\n[profile.release]\nopt-level = 2\ndebug-assertions = true\noverflow-checks = true\ndebug = false\n' % (crate, dep_sections(crate)))
    old = open(srv_dir + "/Cargo.toml").read() if os.path.exists(srv_dir + "/Cargo.toml") else None
    if old != toml:
        with open(srv_dir + "/Cargo.toml", "w") as f:
            f.write(toml)
    lock = os.path.dirname(crate.rstrip("/")) + "/Cargo.lock"
    if os.path.exists(lock) and not os.path.exists(srv_dir + "/Cargo.lock"):
        shutil.copy(lock, srv_dir + "/Cargo.lock")
    env = dict(os.environ, CARGO_TARGET_DIR=srv_dir + "/target", CARGO_NET_OFFLINE="true")
    env.pop("RUSTFLAGS", None)

    def cargo(args):
        try:
            p = subprocess.run(["cargo", "build", "--release", "--offline"] + args, cwd=srv_dir, env=env, capture_output=True, text=True, timeout=1800)
            return p.returncode, p.stderr
        except Exception as e:
            return 1, repr(e)
    rc, err = cargo(["--bins"])
    if rc != 0:  # one example at a time, so that one that does not compile as a server does not take the others with it
        for ex in ok:
            rc1, err1 = cargo(["--bin", ex])
            if rc1 != 0:
                skipped[ex] = "server does not build: " + " ".join(l for l in err1.splitlines() if l.startswith("error"))[:300]
    bins = {}
    for ex in ok:
        b = "%s/target/release/%s" % (srv_dir, ex)
        if ex not in skipped:
            if os.access(b, os.X_OK):
                bins[ex] = b
            else:
                skipped[ex] = "server binary missing after the build"
    return bins, skipped


class Server:
    """one long-lived server process of one example; run() has the same result shape as a sub-process run"""
    def __init__(self, binary, env):
        self.binary, self.env, self.p, self.buf, self.errf = binary, env, None, b"", None
        self.starts = self.runs = 0

    def start(self):
        self.stop()
        self.errf = tempfile.TemporaryFile()
        self.p = subprocess.Popen([self.binary], stdin=subprocess.PIPE, stdout=subprocess.PIPE, stderr=self.errf, env=self.env)
        self.buf = b""
        self.starts += 1
        self.runs = 0

    def stop(self):
        if self.p is not None:
            try:
                self.p.kill()
                self.p.wait(timeout=10)
            except Exception:
                pass
            for s in (self.p.stdin, self.p.stdout):
                try:
                    s.close()
                except Exception:
                    pass
            self.p = None
        if self.errf is not None:
            self.errf.close()
            self.errf = None

    def _stderr(self):
        try:
            self.errf.seek(0)
            return self.errf.read().decode(errors="replace")[-2000:]
        except Exception:
            return ""

    def run(self, args, timeout):
        """args = argv without the program name -> dict(rc, out, err, timeout); a timed-out run is repeated once"""
        res = None
        for _attempt in (1, 2):
            # a fresh process every RECYCLE runs: whatever an example leaves behind on purpose when its process is about to end
            # (tsptw: the sleeping timer thread of its time budget, one per run) must not accumulate
            if self.p is None or self.p.poll() is not None or self.runs >= RECYCLE:
                self.start()
            self.runs += 1
            try:
                self.p.stdin.write(("\t".join(["example"] + list(args)) + "\n").encode())
                self.p.stdin.flush()
            except OSError:
                self.start()
                continue
            fd, deadline, out = self.p.stdout.fileno(), time.time() + timeout, []
            while True:
                nl = self.buf.find(b"\n")
                if nl >= 0:
                    line, self.buf = self.buf[:nl].decode(errors="replace"), self.buf[nl + 1:]
                    if line.startswith(MARK):
                        status = line[len(MARK):].strip()
                        if status == "ok":
                            return {"rc": 0, "out": "\n".join(out) + "\n", "err": "", "timeout": False}
                        return {"rc": 101, "out": "\n".join(out) + "\n", "err": status[len("panic"):].strip(), "timeout": False}
                    out.append(line)
                    continue
                left = deadline - time.time()
                ready = select.select([fd], [], [], max(0.0, left))[0] if left > 0 else []
                if not ready:
                    res = {"rc": None, "out": "\n".join(out), "err": "", "timeout": True}
                    self.stop()
                    break
                chunk = os.read(fd, 1 << 16)
                if not chunk:  # the server died (abort, stack overflow, exit() called by the example)
                    rc = self.p.wait()
                    err = self._stderr()
                    self.stop()
                    return {"rc": rc if rc != 0 else 1, "out": "\n".join(out), "err": err or "server process ended (exit code %s)" % rc, "timeout": False}
                self.buf += chunk
        return res or {"rc": None, "out": "", "err": "", "timeout": True}
