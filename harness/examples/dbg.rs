use vh::model::*;
use vh::run::*;
use vh::wrap::*;
fn main() {
    let f = std::env::args().nth(1).unwrap();
    let body: serde_json::Value = serde_json::from_str(&std::fs::read_to_string(&f).unwrap()).unwrap();
    let case: SolveCase = serde_json::from_value(body["case"].clone()).unwrap();
    let t = &case.t;
    let o = Oracle::new(t);
    println!("cfg={:?}", case.cfg);
    println!("n={} b={} nd={} order={:?} init={} v0={} embed={}", t.n, t.b, t.nd, t.order, t.init, t.v0, t.embed_depth);
    for l in 0..t.n { println!("layer {l} var {}: delta={:?} psi_next={:?} rel={:?}", t.order[l], t.delta[l], t.psi[l+1], t.relevant[l]); }
    println!("h*={:?} opt={:?}", o.h, o.opt);
    let out = run_table(t, &o, &case.cfg, &RunOpts { record: true, stop_on_self_enqueue: true, ..Default::default() });
    let filter = std::env::args().nth(2).unwrap_or_default();
    for (tag, e) in out.log.iter() {
        let s = format!("{:?}", e);
        if filter.is_empty() || filter.split(',').any(|f| s.starts_with(f)) { println!("[{tag}] {s}"); }
    }
    println!("{:?}", RunOut { log: vec![], ..out });
}
