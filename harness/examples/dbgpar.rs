use vh::model::*;
use vh::sched::*;
fn main() {
    vh::run::install_panic_hook();
    let f = std::env::args().nth(1).unwrap();
    let body: serde_json::Value = serde_json::from_str(&std::fs::read_to_string(&f).unwrap()).unwrap();
    let case: ParCase = serde_json::from_value(body["case"].clone()).unwrap();
    let o = Oracle::new(&case.t);
    println!("cfg={:?} threads={} builder={:?} fire_at={:?} fine={} opt={:?}", case.cfg, case.threads, case.with_nb_threads, case.fire_at, case.fine, o.opt);
    let primals = vh::props::par::primals_of(&case, &o).unwrap_or_default();
    match run_scheduled(&case, &o, primals, true) {
        SchedOutcome::Done(out, rep) => {
            let filter = std::env::args().nth(2).unwrap_or_default();
            for (tag, e) in out.log.iter() {
                let s = format!("{:?}", e);
                if filter.is_empty() || filter.split(',').any(|f| s.starts_with(f)) { println!("[{tag}] {s}"); }
            }
            println!("{:?}", vh::run::RunOut { log: vec![], ..*out });
            println!("{:?}", rep.trace_tail);
        }
        SchedOutcome::Stuck(rep) => println!("STUCK {:?}", rep),
        SchedOutcome::HarnessTimeout => println!("timeout"),
    }
}
