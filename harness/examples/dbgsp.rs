use ddo::*;
use std::sync::Arc;
use vh::families::*;
fn main() {
    let f = std::env::args().nth(1).unwrap();
    let body: serde_json::Value = serde_json::from_str(&std::fs::read_to_string(&f).unwrap()).unwrap();
    let case: vh::props::dd_fam::SpDdCase = serde_json::from_value(body["case"].clone()).unwrap();
    let sp = &case.sp;
    println!("{:?}", case);
    let rlx = SetPackRelax(sp);
    let dom = EmptyDominanceChecker::default();
    let cache: EmptyCache<u32> = Default::default();
    let residual = SubProblem { state: Arc::new((1u32 << sp.n) - 1), value: 0, path: vec![], ub: isize::MAX, depth: 0 };
    let input = CompilationInput { comp_type: CompilationType::Relaxed, problem: sp, relaxation: &rlx, ranking: &SetPackRank, cutoff: &NoCutoff, max_width: case.width, residual: &residual, best_lb: isize::MIN, cache: &cache, dominance: &dom };
    let cfg = VizConfigBuilder::default().show_deleted(true).build().unwrap();
    match case.dd {
        vh::run::DdKind::Pooled => { let mut dd = Pooled::<u32>::new(); let c = dd.compile(&input); println!("{:?} exact={} bev={:?}", c, dd.is_exact(), dd.best_exact_value()); println!("{}", dd.as_graphviz(&cfg)); dd.drain_cutset(|s| println!("CUT {:?}", s)); }
        vh::run::DdKind::Lel => { let mut dd = DefaultMDDLEL::<u32>::new(); let c = dd.compile(&input); println!("{:?} exact={} bev={:?}", c, dd.is_exact(), dd.best_exact_value()); println!("{}", dd.as_graphviz(&cfg)); dd.drain_cutset(|s| println!("CUT {:?}", s)); }
        vh::run::DdKind::Frontier => { let mut dd = DefaultMDDFC::<u32>::new(); let c = dd.compile(&input); println!("{:?} exact={} bev={:?}", c, dd.is_exact(), dd.best_exact_value()); println!("{}", dd.as_graphviz(&cfg)); dd.drain_cutset(|s| println!("CUT {:?}", s)); }
    }
}
