//! verif-check <PROPERTY> [--tier quick|thorough] [--replay FILE] [--jobs N]
//! exit 0: held on everything explored; exit 1: violation (VIOLATION line printed); exit 2: harness error / inconclusive
use std::io::Write;
use std::process::{Command, Stdio};
use std::time::Instant;
use vh::infra::*;
use vh::props;

fn main() {
    let args: Vec<String> = std::env::args().collect();
    if args.len() < 2 {
        eprintln!("usage: verif-check <PROPERTY> [--tier quick|thorough] [--replay FILE] [--jobs N]");
        std::process::exit(2);
    }
    let prop = args[1].clone();
    let mut tier = match std::env::var("VERIF_TIER").as_deref() {
        Ok("thorough") => Tier::Thorough,
        _ => Tier::Quick,
    };
    let mut replay: Option<String> = None;
    let mut shard: Option<(usize, usize)> = None;
    let mut out: Option<String> = None;
    let mut jobs: usize = std::env::var("VERIF_JOBS").ok().and_then(|s| s.parse().ok()).unwrap_or(16);
    let mut i = 2;
    while i < args.len() {
        match args[i].as_str() {
            "--tier" => {
                tier = if args[i + 1] == "thorough" { Tier::Thorough } else { Tier::Quick };
                i += 1;
            }
            "--replay" => {
                replay = Some(args[i + 1].clone());
                i += 1;
            }
            "--shard" => {
                let (a, b) = args[i + 1].split_once('/').expect("--shard i/n");
                shard = Some((a.parse().unwrap(), b.parse().unwrap()));
                i += 1;
            }
            "--out" => {
                out = Some(args[i + 1].clone());
                i += 1;
            }
            "--jobs" => {
                jobs = args[i + 1].parse().unwrap();
                i += 1;
            }
            x => {
                eprintln!("unknown argument {x}");
                std::process::exit(2);
            }
        }
        i += 1;
    }
    let seed: u64 = std::env::var("VERIF_SEED").ok().and_then(|s| s.parse::<i128>().ok()).map(|v| v as u64).unwrap_or(20260925);
    vh::run::install_panic_hook();
    let def = match props::find(&prop) {
        Some(d) => d,
        None => {
            eprintln!("unknown property {prop}");
            std::process::exit(2);
        }
    };

    // ---- replay mode -----------------------------------------------------
    if let Some(file) = replay {
        let body: serde_json::Value = serde_json::from_str(&std::fs::read_to_string(&file).expect("cannot read replay file")).expect("replay file is not json");
        let part = body["part"].as_str().unwrap_or("").to_string();
        let known = KnownFindings::load();
        match (def.replay)(&part, &body["case"], &known) {
            Verdict::Pass => {
                println!("replay {file}: property {prop} holds on this case");
                std::process::exit(0);
            }
            Verdict::Known(id) => {
                println!("KNOWN-FINDING: property={prop} {id} (replayed case matches a listed known finding)");
                std::process::exit(0);
            }
            Verdict::Fail(r) => {
                println!("replay {file}: {r}");
                println!("VIOLATION property={prop} replay={file}");
                std::process::exit(1);
            }
            Verdict::HarnessError(e) => {
                println!("replay {file}: harness error {e}");
                std::process::exit(2);
            }
        }
    }

    // ---- shard (child) mode ------------------------------------------------
    if let Some((s, n)) = shard {
        let mut ctx = Ctx { prop: prop.clone(), tier, seed, shard: s, nshards: n, stats: Stats::default(), known: KnownFindings::load() };
        if s == 0 {
            // replay tier: saved inputs of repaired / known findings (seconds long)
            if let Ok(rd) = std::fs::read_dir(format!("{}/regress", home_dir())) {
                let mut files: Vec<_> = rd.filter_map(|e| e.ok()).map(|e| e.path()).filter(|p| p.file_name().and_then(|n| n.to_str()).map_or(false, |n| n.starts_with(&format!("{prop}-")) && n.ends_with(".json"))).collect();
                files.sort();
                for f in files {
                    let body: serde_json::Value = match std::fs::read_to_string(&f).ok().and_then(|t| serde_json::from_str(&t).ok()) {
                        Some(b) => b,
                        None => {
                            ctx.stats.harness_errors.push(format!("unreadable regression file {}", f.display()));
                            continue;
                        }
                    };
                    let part = body["part"].as_str().unwrap_or("").to_string();
                    let known = ctx.known.clone();
                    let v = (def.replay)(&part, &body["case"], &known);
                    let mut obs = CaseObs::default();
                    obs.label("regress-replay");
                    let case = body["case"].clone();
                    ctx.account(&format!("regress:{}", f.file_name().unwrap().to_string_lossy()), obs, || case, v);
                }
            }
        }
        // a panic that escapes here is a defect of the harness itself (the quiet panic hook would hide it)
        if std::panic::catch_unwind(std::panic::AssertUnwindSafe(|| (def.run)(&mut ctx))).is_err() {
            eprintln!("HARNESS-ERROR: the harness panicked in shard {s}: {:?}", vh::run::take_panics().last());
            std::process::exit(2);
        }
        let js = serde_json::to_string(&ctx.stats).unwrap();
        std::fs::write(out.expect("--out"), js).expect("cannot write shard output");
        std::process::exit(0);
    }

    // ---- parent mode -----------------------------------------------------
    let t0 = Instant::now();
    let exe = std::env::current_exe().unwrap();
    let tmp = format!("{}/target/shards/{prop}-{}", out_dir(), std::process::id());
    let _ = std::fs::remove_dir_all(&tmp);
    std::fs::create_dir_all(&tmp).unwrap();
    let nshards = jobs.max(1);
    let mut children = vec![];
    for s in 0..nshards {
        let outf = format!("{tmp}/shard{s}.json");
        let child = Command::new(&exe)
            .arg(&prop)
            .arg("--tier")
            .arg(tier.name())
            .arg("--shard")
            .arg(format!("{s}/{nshards}"))
            .arg("--out")
            .arg(&outf)
            .env("VERIF_SEED", format!("{seed}"))
            .stdin(Stdio::null())
            .spawn()
            .expect("cannot spawn shard");
        children.push((s, child, outf));
    }
    let mut stats = Stats::default();
    let mut shard_failures = vec![];
    for (s, mut child, outf) in children {
        let status = child.wait().expect("wait");
        match std::fs::read_to_string(&outf).ok().and_then(|t| serde_json::from_str::<Stats>(&t).ok()) {
            Some(st) if status.success() => stats.merge(st),
            _ => shard_failures.push(format!("shard {s} ended with {status} without results")),
        }
    }
    let _ = std::fs::remove_dir_all(&tmp);
    let wall = t0.elapsed().as_secs_f64();
    let known = KnownFindings::load();
    let mut known_lines = vec![];
    for (id, p, text) in known.known.iter().filter(|(_, p, _)| *p == prop) {
        let hits = stats.known_hits.get(id).copied().unwrap_or(0);
        let line = format!("KNOWN-FINDING: property={p} id={id} {text} [hit {hits} time(s) in this run; such cases are excluded by signature and counted]");
        println!("{line}");
        known_lines.push(line);
    }
    let meta = (def.meta)();
    write_evidence(&prop, tier, seed, wall, &stats, &meta, &known_lines);
    let mut code = 0;
    // de-duplicate violations by (part, reason)
    let mut seen = std::collections::BTreeSet::new();
    for v in stats.violations.iter() {
        if !seen.insert((v.part.clone(), v.reason.clone())) {
            continue;
        }
        let p = write_replay(v);
        println!("violation in part '{}': {}", v.part, v.reason);
        println!("VIOLATION property={} replay={}", v.property, p.display());
        code = 1;
    }
    for e in stats.harness_errors.iter().chain(shard_failures.iter()) {
        println!("HARNESS-ERROR: {e}");
        if code == 0 {
            code = 2;
        }
    }
    for e in stats.inconclusive.iter().take(5) {
        println!("INCONCLUSIVE: {e}");
    }
    println!(
        "{prop} [{}] seed={seed}: {} evaluations, {} distinct non-trivial, {} excluded as known, {} violation(s), {:.1}s",
        tier.name(),
        stats.evaluations,
        stats.nontrivial.len(),
        stats.excluded_known,
        stats.violations.len(),
        wall
    );
    let _ = std::io::stdout().flush();
    std::process::exit(code);
}
