//! Direct (solver-less) compilation of decision diagrams for generated sub-problems:
//! the common engine of C06, C07, C08, C12, C13 and C20.
use crate::model::*;
use crate::run::*;
use crate::wrap::*;
use ddo::*;
use proptest::prelude::*;
use serde::{Deserialize, Serialize};
use std::panic::{catch_unwind, AssertUnwindSafe};
use std::sync::Arc;

#[derive(Clone, Copy, Debug, PartialEq, Eq, Hash, Serialize, Deserialize)]
pub enum CType {
    Exact,
    Restricted,
    Relaxed,
}
impl CType {
    pub fn to_ddo(self) -> CompilationType {
        match self {
            CType::Exact => CompilationType::Exact,
            CType::Restricted => CompilationType::Restricted,
            CType::Relaxed => CompilationType::Relaxed,
        }
    }
}
/// incumbent relative to the optimum of the *sub-problem*
#[derive(Clone, Copy, Debug, PartialEq, Eq, Hash, Serialize, Deserialize)]
pub enum IncSel {
    None,
    Below(isize),
    At,
    Above(isize),
}
#[derive(Clone, Debug, PartialEq, Eq, Hash, Serialize, Deserialize)]
pub struct SubSel {
    pub depth: usize,
    pub choices: Vec<u8>,
}
#[derive(Clone, Debug, PartialEq, Eq, Hash, Serialize, Deserialize)]
pub struct CompileSpec {
    pub ctype: CType,
    pub width: usize,
    pub sub: SubSel,
    pub inc: IncSel,
    /// cutoff answers stop at this poll (history items only)
    pub cut_at: Option<usize>,
}
#[derive(Clone, Debug, PartialEq, Eq, Hash, Serialize, Deserialize)]
pub struct DdCase {
    pub t: TableDP,
    pub dd: DdKind,
    pub cache: CacheKind,
    pub rub: RubMode,
    pub dom: DomMode,
    pub rank: RankMode,
    pub main: CompileSpec,
    pub history: Vec<CompileSpec>,
    /// the history and the main compilation share one cache and one dominance store (as the
    /// compilations of a solver do); otherwise each compilation gets fresh ones
    #[serde(default)]
    pub warm: bool,
}

/// a concrete exact sub-problem of an instance
#[derive(Clone, Debug)]
pub struct Sub {
    pub depth: usize,
    pub atom: usize,
    pub value: isize,
    pub path: Vec<Decision>,
}
/// walks from the root following the generated choices (only feasible arcs); stops early at dead ends
pub fn select_sub(t: &TableDP, sel: &SubSel) -> Sub {
    let mut a = t.init;
    let mut v = t.v0;
    let mut path = vec![];
    let mut l = 0;
    while l < sel.depth.min(t.n) {
        let opts: Vec<(usize, usize, isize)> = (0..t.nd).filter_map(|d| t.tr(l, a, d).map(|(nx, c)| (d, nx, c))).collect();
        if opts.is_empty() {
            break;
        }
        let c = sel.choices.get(l).copied().unwrap_or(0) as usize;
        let (d, nx, c) = opts[(c * opts.len()) >> 8];
        if t.relevant[l][a] {
            path.push(t.decision(l, d));
        }
        a = nx;
        v += c;
        l += 1;
    }
    Sub { depth: l, atom: a, value: v, path }
}
pub fn sub_opt(o: &Oracle, s: &Sub) -> Option<isize> {
    o.h[s.depth][s.atom].map(|h| h + s.value)
}
pub fn incumbent(inc: IncSel, subopt: Option<isize>) -> isize {
    match (inc, subopt) {
        (IncSel::None, _) => isize::MIN,
        (IncSel::Below(d), Some(o)) => o - d,
        (IncSel::At, Some(o)) => o,
        (IncSel::Above(d), Some(o)) => o + d,
        // infeasible sub-problem: any finite incumbent
        (IncSel::Below(d), None) => -d,
        (IncSel::At, None) => 0,
        (IncSel::Above(d), None) => d,
    }
}

#[derive(Clone, Debug, PartialEq, Eq)]
pub struct CutNode {
    pub state: St,
    pub depth: usize,
    pub value: isize,
    pub ub: isize,
    pub path: Vec<Decision>,
}
#[derive(Clone, Debug, Default)]
pub struct DdOut {
    pub panic: Option<String>,
    /// Ok(Completion) or Err(cutoff)
    pub completion: Option<Result<(bool, Option<isize>), ()>>,
    pub is_exact: bool,
    pub best_value: Option<isize>,
    pub best_solution: Option<Vec<Decision>>,
    pub best_exact_value: Option<isize>,
    pub best_exact_solution: Option<Vec<Decision>>,
    pub cutset: Vec<CutNode>,
    pub viz: Vec<(u8, Result<String, String>)>,
    pub log: Vec<(u32, Ev<St>)>,
    pub c: CounterVals,
}

pub trait Viz {
    fn viz(&self, cfg: &VizConfig) -> String;
}
impl<const C: u8> Viz for Mdd<St, C> {
    fn viz(&self, cfg: &VizConfig) -> String {
        self.as_graphviz(cfg)
    }
}
impl Viz for Pooled<St> {
    fn viz(&self, cfg: &VizConfig) -> String {
        self.as_graphviz(cfg)
    }
}
pub fn viz_config(bits: u8) -> VizConfig {
    VizConfigBuilder::default()
        .show_value(bits & 1 != 0)
        .show_locb(bits & 2 != 0)
        .show_rub(bits & 4 != 0)
        .show_threshold(bits & 8 != 0)
        .show_deleted(bits & 16 != 0)
        .group_merged(bits & 32 != 0)
        .build()
        .unwrap()
}

pub struct Env<'a> {
    pub t: &'a TableDP,
    pub o: &'a Oracle,
    pub rub: &'a RubMode,
    pub dom: &'a DomMode,
    pub rank: &'a RankMode,
    pub cache: CacheKind,
}

/// The stores a solver shares between all its compilations: cache, dominance store (and the log our
/// wrappers write to).
pub struct Stores<'a> {
    pub log: Arc<Log<St>>,
    c_empty: HookCache<EmptyCache<St>>,
    c_simple: HookCache<SimpleCache<St>>,
    dom: Box<dyn DominanceChecker<State = St> + Send + Sync + 'a>,
}
pub fn new_stores<'a>(env: &Env<'a>, record: bool) -> Stores<'a> {
    let t = env.t;
    let log: Arc<Log<St>> = Log::new(record);
    let dom: Box<dyn DominanceChecker<State = St> + Send + Sync + 'a> = match env.dom {
        DomMode::None => Box::new(EmptyDominanceChecker::default()),
        _ => Box::new(SimpleDominanceChecker::new(TDom { t, o: env.o, mode: env.dom }, t.n)),
    };
    set_cache_observer::<St>(Some(Arc::new(LogCacheObs { log: log.clone(), yield_hook: None })));
    let mut c_empty: HookCache<EmptyCache<St>> = Default::default();
    let mut c_simple: HookCache<SimpleCache<St>> = Default::default();
    set_cache_observer::<St>(None);
    c_empty.initialize(t);
    c_simple.initialize(t);
    Stores { log, c_empty, c_simple, dom }
}

/// Compiles `spec` on `dd` with fresh cache and dominance store; collects everything observable.
pub fn compile_on<D: DecisionDiagram<State = St> + Viz>(dd: &mut D, env: &Env, spec: &CompileSpec, record: bool, viz_bits: &[u8], drain: bool) -> DdOut {
    let stores = new_stores(env, record);
    compile_with(dd, env, spec, &stores, viz_bits, drain)
}
/// Compiles `spec` on `dd` with the given (possibly warm) stores.
pub fn compile_with<D: DecisionDiagram<State = St> + Viz>(dd: &mut D, env: &Env, spec: &CompileSpec, stores: &Stores, viz_bits: &[u8], drain: bool) -> DdOut {
    let t = env.t;
    let o = env.o;
    let sub = select_sub(t, &spec.sub);
    let subopt = sub_opt(o, &sub);
    let best_lb = incumbent(spec.inc, subopt);
    let log = stores.log.clone();
    let pb = RecProblem { inner: t, log: log.clone() };
    let rlx_inner = TRelax { t, o, rub: env.rub };
    let rlx = RecRelax { inner: &rlx_inner, log: log.clone() };
    let rank = TRank { t, o, mode: env.rank };
    let dom = RecDom { inner: stores.dom.as_ref(), log: log.clone(), yield_hook: None };
    let cut = CountCut::new(spec.cut_at, usize::MAX, log.clone());
    let cache: &dyn Cache<State = St> = match env.cache {
        CacheKind::Empty => &stores.c_empty,
        CacheKind::Simple => &stores.c_simple,
    };
    let residual = SubProblem { state: Arc::new(t.mk_state(sub.depth, 1 << sub.atom)), value: sub.value, path: sub.path.clone(), ub: isize::MAX, depth: sub.depth };
    let input = CompilationInput { comp_type: spec.ctype.to_ddo(), problem: &pb, relaxation: &rlx, ranking: &rank, cutoff: &cut, max_width: spec.width, residual: &residual, best_lb, cache, dominance: &dom };
    take_panics();
    let mut out = DdOut::default();
    let res = catch_unwind(AssertUnwindSafe(|| {
        let r = dd.compile(&input);
        let mut out = DdOut::default();
        out.completion = Some(match &r {
            Ok(c) => Ok((c.is_exact, c.best_value)),
            Err(_) => Err(()),
        });
        if r.is_ok() {
            out.is_exact = dd.is_exact();
            out.best_value = dd.best_value();
            out.best_solution = dd.best_solution();
            out.best_exact_value = dd.best_exact_value();
            out.best_exact_solution = dd.best_exact_solution();
        }
        out
    }));
    match res {
        Ok(o2) => out = o2,
        Err(_) => {
            out.panic = Some(format!("compile: {}", take_panics().join(" | ")));
        }
    }
    if out.panic.is_none() && matches!(out.completion, Some(Ok(_))) {
        // visualisation first (drain_cutset consumes the cut-set)
        for b in viz_bits {
            let cfg = viz_config(*b);
            let r = catch_unwind(AssertUnwindSafe(|| dd.viz(&cfg)));
            out.viz.push((*b, r.map_err(|_| take_panics().join(" | "))));
        }
        if drain && spec.ctype == CType::Relaxed {
            let r = catch_unwind(AssertUnwindSafe(|| {
                let mut cs = vec![];
                dd.drain_cutset(|s| cs.push(CutNode { state: (*s.state).clone(), depth: s.depth, value: s.value, ub: s.ub, path: s.path.clone() }));
                cs
            }));
            match r {
                Ok(cs) => out.cutset = cs,
                Err(_) => out.panic = Some(format!("drain_cutset: {}", take_panics().join(" | "))),
            }
        }
    }
    out.log = log.take();
    out.c = log.c.vals();
    out
}

/// Runs the history (results ignored) then the main compilation on one diagram object.
pub fn run_case_on<D: DecisionDiagram<State = St> + Viz + Default>(case: &DdCase, o: &Oracle, with_history: bool, record: bool, viz_bits: &[u8]) -> DdOut {
    let env = Env { t: &case.t, o, rub: &case.rub, dom: &case.dom, rank: &case.rank, cache: case.cache };
    let mut dd = D::default();
    if with_history && case.warm {
        // as in a solver: one cache and one dominance store for all the compilations
        let stores = new_stores(&env, record);
        for h in case.history.iter() {
            let r = compile_with(&mut dd, &env, h, &stores, &[], h.width % 2 == 0);
            if r.panic.is_some() {
                let mut out = DdOut::default();
                out.panic = Some(format!("history compilation panicked: {:?}", r.panic));
                return out;
            }
        }
        let _ = stores.log.take();
        stores.log.c.reset();
        return compile_with(&mut dd, &env, &case.main, &stores, viz_bits, true);
    }
    if with_history {
        for h in case.history.iter() {
            let r = compile_on(&mut dd, &env, h, false, &[], h.width % 2 == 0);
            if r.panic.is_some() {
                let mut out = DdOut::default();
                out.panic = Some(format!("history compilation panicked: {:?}", r.panic));
                return out;
            }
        }
    }
    compile_on(&mut dd, &env, &case.main, record, viz_bits, true)
}
pub fn run_case(case: &DdCase, o: &Oracle, with_history: bool, record: bool, viz_bits: &[u8]) -> DdOut {
    match case.dd {
        DdKind::Lel => run_case_on::<DefaultMDDLEL<St>>(case, o, with_history, record, viz_bits),
        DdKind::Frontier => run_case_on::<DefaultMDDFC<St>>(case, o, with_history, record, viz_bits),
        DdKind::Pooled => run_case_on::<Pooled<St>>(case, o, with_history, record, viz_bits),
    }
}

// ---------------------------------------------------------------------------
// generators
// ---------------------------------------------------------------------------
fn spec_strategy(ctypes: Vec<CType>, max_width: usize, allow_cut: bool) -> impl Strategy<Value = CompileSpec> {
    let inc = prop_oneof![
        3 => Just(IncSel::None),
        1 => Just(IncSel::Below(2)),
        2 => Just(IncSel::Below(1)),
        2 => Just(IncSel::At),
        1 => Just(IncSel::Above(1)),
    ];
    let width = prop_oneof![3 => 1usize..=2, 2 => 1usize..=max_width.max(1)];
    let sub = (prop_oneof![3 => Just(0usize), 3 => 0usize..=NMAX], prop::collection::vec(any::<u8>(), NMAX)).prop_map(|(depth, choices)| SubSel { depth, choices });
    let cut = if allow_cut { prop_oneof![3 => Just(None), 2 => (1usize..16).prop_map(Some)].boxed() } else { Just(None).boxed() };
    (prop::sample::select(ctypes), width, sub, inc, cut).prop_map(|(ctype, width, sub, inc, cut_at)| CompileSpec { ctype, width, sub, inc, cut_at })
}

/// as `dd_case_strategy`, but the compilation under test comes after 2..=5 others that share its cache
/// (SimpleCache) and dominance store, most of them relaxed: its layers meet thresholds left by the others
pub fn dd_case_strategy_warm(p: GenParams, main_types: Vec<CType>, dds: Vec<DdKind>) -> impl Strategy<Value = DdCase> {
    let hist = vec![CType::Exact, CType::Restricted, CType::Relaxed, CType::Relaxed, CType::Relaxed];
    (
        table_strategy(p),
        config_strategy(ConfigGen { max_width: 4, ..Default::default() }),
        prop::sample::select(dds),
        spec_strategy(main_types, 4, false),
        prop::collection::vec(spec_strategy(hist, 4, true), 2..=5),
    )
        .prop_map(|(t, cfg, dd, main, history)| DdCase { t, dd, cache: CacheKind::Simple, rub: cfg.rub, dom: cfg.dom, rank: cfg.rank, main, history, warm: true })
}
pub fn dd_case_strategy(p: GenParams, main_types: Vec<CType>, dds: Vec<DdKind>) -> impl Strategy<Value = DdCase> {
    dd_case_strategy_cut(p, main_types, dds, false)
}
/// `main_cut`: the compilation under test may itself be interrupted by the cutoff at a generated poll
pub fn dd_case_strategy_cut(p: GenParams, main_types: Vec<CType>, dds: Vec<DdKind>, main_cut: bool) -> impl Strategy<Value = DdCase> {
    let all = vec![CType::Exact, CType::Restricted, CType::Relaxed];
    (
        table_strategy(p),
        config_strategy(ConfigGen { max_width: 4, ..Default::default() }),
        prop::sample::select(dds),
        spec_strategy(main_types, 4, main_cut),
        prop_oneof![2 => Just(vec![]).boxed(), 1 => prop::collection::vec(spec_strategy(all, 4, true), 1..=3).boxed()],
    )
        .prop_map(|(t, cfg, dd, main, history)| DdCase { t, dd, cache: cfg.cache, rub: cfg.rub, dom: cfg.dom, rank: cfg.rank, main, history, warm: false })
}
