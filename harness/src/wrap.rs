//! Observation without hooks: recording wrappers around the public traits (DESIGN §5).
use ddo::*;
use parking_lot::Mutex;
use std::cell::RefCell;
use std::hash::Hash;
use std::sync::atomic::{AtomicBool, AtomicUsize, Ordering as AO};
use std::sync::Arc;

/// One observed call into user code (or into a wrapped heuristic).
/// The order on thresholds the property states: by value, then 'explored' above 'not explored'. Written
/// out here on purpose: the oracles must not inherit the order `Threshold` derives in the library.
pub fn tkey(t: &Threshold) -> (isize, bool) {
    (t.value, t.explored)
}
#[derive(Clone, Debug, PartialEq)]
pub enum Ev<S> {
    NextVar { depth: usize, states: Vec<S>, ret: Option<usize> },
    Domain { var: usize, state: S, decisions: Vec<isize> },
    Transition { src: S, d: Decision, dst: S },
    Cost { src: S, dst: S, d: Decision, ret: isize },
    Impacted { var: usize, state: S, ret: bool },
    Merge { inputs: Vec<S>, out: S },
    Relax { src: S, dst: S, merged: S, d: Decision, cost: isize, ret: isize },
    Rub { state: S, ret: isize },
    Width { state: S, depth: usize, value: isize, path_len: usize, ret: usize },
    Poll { idx: usize, ret: bool },
    Push { state: S, depth: usize, value: isize, ub: isize, path: Vec<Decision>, len_before: usize, len_after: usize },
    Pop { state: S, depth: usize, value: isize, ub: isize, path: Vec<Decision> },
    FringeClear,
    CacheGet { state: S, depth: usize, ret: Option<Threshold> },
    CacheUpdate { state: S, depth: usize, value: isize, explored: bool },
    CacheClearLayer { depth: usize },
    CacheClear,
    DomCheck { state: S, depth: usize, value: isize, dominated: bool, threshold: Option<isize> },
}

/// A thread-safe event log; every entry is tagged with a small per-thread id
/// (0 = the thread that created the log).
pub struct Log<S> {
    pub on: bool,
    pub evs: Mutex<Vec<(u32, Ev<S>)>>,
    pub c: Counters,
}
/// cheap always-on counters (non-triviality rules, labels)
#[derive(Default, Debug)]
pub struct Counters {
    pub merges: AtomicUsize,
    pub relaxes: AtomicUsize,
    pub relaxes_changed: AtomicUsize,
    pub not_impacted: AtomicUsize,
    pub pops: AtomicUsize,
    pub pushes: AtomicUsize,
    pub coalesced: AtomicUsize,
    pub cache_some: AtomicUsize,
    pub cache_updates: AtomicUsize,
    pub dom_pruned: AtomicUsize,
    pub dom_checks: AtomicUsize,
    pub rub_calls: AtomicUsize,
    pub domain_calls: AtomicUsize,
}
#[derive(Default, Debug, Clone, Copy)]
pub struct CounterVals {
    pub merges: usize,
    pub relaxes: usize,
    pub relaxes_changed: usize,
    pub not_impacted: usize,
    pub pops: usize,
    pub pushes: usize,
    pub coalesced: usize,
    pub cache_some: usize,
    pub cache_updates: usize,
    pub dom_pruned: usize,
    pub dom_checks: usize,
    pub rub_calls: usize,
    pub domain_calls: usize,
}
impl Counters {
    pub fn reset(&self) {
        for c in [&self.merges, &self.relaxes, &self.relaxes_changed, &self.not_impacted, &self.pops, &self.pushes, &self.coalesced, &self.cache_some, &self.cache_updates, &self.dom_pruned, &self.dom_checks, &self.rub_calls, &self.domain_calls] {
            c.store(0, AO::Relaxed);
        }
    }
    pub fn vals(&self) -> CounterVals {
        CounterVals {
            merges: self.merges.load(AO::Relaxed),
            relaxes: self.relaxes.load(AO::Relaxed),
            relaxes_changed: self.relaxes_changed.load(AO::Relaxed),
            not_impacted: self.not_impacted.load(AO::Relaxed),
            pops: self.pops.load(AO::Relaxed),
            pushes: self.pushes.load(AO::Relaxed),
            coalesced: self.coalesced.load(AO::Relaxed),
            cache_some: self.cache_some.load(AO::Relaxed),
            cache_updates: self.cache_updates.load(AO::Relaxed),
            dom_pruned: self.dom_pruned.load(AO::Relaxed),
            dom_checks: self.dom_checks.load(AO::Relaxed),
            rub_calls: self.rub_calls.load(AO::Relaxed),
            domain_calls: self.domain_calls.load(AO::Relaxed),
        }
    }
}
#[inline]
fn bump(c: &AtomicUsize) {
    c.fetch_add(1, AO::Relaxed);
}
thread_local! { static THREAD_TAG: std::cell::Cell<u32> = std::cell::Cell::new(u32::MAX); }
static NEXT_TAG: std::sync::atomic::AtomicU32 = std::sync::atomic::AtomicU32::new(0);
/// a small process-unique id of the calling thread
pub fn thread_tag() -> u32 {
    THREAD_TAG.with(|t| {
        if t.get() == u32::MAX {
            t.set(NEXT_TAG.fetch_add(1, AO::SeqCst));
        }
        t.get()
    })
}
impl<S> Log<S> {
    pub fn new(on: bool) -> Arc<Self> {
        Arc::new(Log { on, evs: Mutex::new(vec![]), c: Counters::default() })
    }
    #[inline]
    pub fn push(&self, f: impl FnOnce() -> Ev<S>) {
        if self.on {
            let tag = thread_tag();
            self.evs.lock().push((tag, f()));
        }
    }
    pub fn take(&self) -> Vec<(u32, Ev<S>)> {
        std::mem::take(&mut *self.evs.lock())
    }
}

pub struct RecProblem<'a, S> {
    pub inner: &'a (dyn Problem<State = S> + Send + Sync),
    pub log: Arc<Log<S>>,
}
impl<S: Clone> Problem for RecProblem<'_, S> {
    type State = S;
    fn nb_variables(&self) -> usize {
        self.inner.nb_variables()
    }
    fn initial_state(&self) -> S {
        self.inner.initial_state()
    }
    fn initial_value(&self) -> isize {
        self.inner.initial_value()
    }
    fn transition(&self, state: &S, decision: Decision) -> S {
        let dst = self.inner.transition(state, decision);
        self.log.push(|| Ev::Transition { src: state.clone(), d: decision, dst: dst.clone() });
        dst
    }
    fn transition_cost(&self, source: &S, dest: &S, decision: Decision) -> isize {
        let ret = self.inner.transition_cost(source, dest, decision);
        self.log.push(|| Ev::Cost { src: source.clone(), dst: dest.clone(), d: decision, ret });
        ret
    }
    fn next_variable(&self, depth: usize, next_layer: &mut dyn Iterator<Item = &S>) -> Option<Variable> {
        if self.log.on {
            let states: Vec<S> = next_layer.cloned().collect();
            let ret = self.inner.next_variable(depth, &mut states.iter());
            self.log.push(|| Ev::NextVar { depth, states, ret: ret.map(|v| v.id()) });
            ret
        } else {
            self.inner.next_variable(depth, next_layer)
        }
    }
    fn for_each_in_domain(&self, var: Variable, state: &S, f: &mut dyn DecisionCallback) {
        bump(&self.log.c.domain_calls);
        if self.log.on {
            let mut ds = vec![];
            self.inner.for_each_in_domain(var, state, &mut |d: Decision| ds.push(d));
            self.log.push(|| Ev::Domain { var: var.id(), state: state.clone(), decisions: ds.iter().map(|d| d.value).collect() });
            for d in ds {
                f.apply(d);
            }
        } else {
            self.inner.for_each_in_domain(var, state, f)
        }
    }
    fn is_impacted_by(&self, var: Variable, state: &S) -> bool {
        let ret = self.inner.is_impacted_by(var, state);
        if !ret {
            bump(&self.log.c.not_impacted);
        }
        self.log.push(|| Ev::Impacted { var: var.id(), state: state.clone(), ret });
        ret
    }
}

pub struct RecRelax<'a, S> {
    pub inner: &'a (dyn Relaxation<State = S> + Send + Sync),
    pub log: Arc<Log<S>>,
}
impl<S: Clone> Relaxation for RecRelax<'_, S> {
    type State = S;
    fn merge(&self, states: &mut dyn Iterator<Item = &S>) -> S {
        bump(&self.log.c.merges);
        if self.log.on {
            let inputs: Vec<S> = states.cloned().collect();
            let out = self.inner.merge(&mut inputs.iter());
            self.log.push(|| Ev::Merge { inputs, out: out.clone() });
            out
        } else {
            self.inner.merge(states)
        }
    }
    fn relax(&self, source: &S, dest: &S, new: &S, decision: Decision, cost: isize) -> isize {
        let ret = self.inner.relax(source, dest, new, decision, cost);
        bump(&self.log.c.relaxes);
        if ret != cost {
            bump(&self.log.c.relaxes_changed);
        }
        self.log.push(|| Ev::Relax { src: source.clone(), dst: dest.clone(), merged: new.clone(), d: decision, cost, ret });
        ret
    }
    fn fast_upper_bound(&self, state: &S) -> isize {
        let ret = self.inner.fast_upper_bound(state);
        bump(&self.log.c.rub_calls);
        self.log.push(|| Ev::Rub { state: state.clone(), ret });
        ret
    }
}

pub struct RecWidth<'a, S> {
    pub inner: &'a (dyn WidthHeuristic<S> + Send + Sync),
    pub log: Arc<Log<S>>,
}
impl<S: Clone> WidthHeuristic<S> for RecWidth<'_, S> {
    fn max_width(&self, sp: &SubProblem<S>) -> usize {
        let ret = self.inner.max_width(sp);
        self.log.push(|| Ev::Width { state: (*sp.state).clone(), depth: sp.depth, value: sp.value, path_len: sp.path.len(), ret });
        ret
    }
}

/// A `StateRanking` usable as a sized type parameter (MaxUB wants one) around a trait object
pub struct DynRank<'a, S>(pub &'a (dyn StateRanking<State = S> + Send + Sync));
impl<S> StateRanking for DynRank<'_, S> {
    type State = S;
    fn compare(&self, a: &S, b: &S) -> std::cmp::Ordering {
        self.0.compare(a, b)
    }
}

/// Counting cutoff: answers `true` from the `fire_at`-th poll on (1-based);
/// independently, `budget` polls is the non-termination watchdog (DESIGN §1).
pub struct CountCut<S> {
    pub fire_at: usize,
    pub budget: usize,
    pub polls: AtomicUsize,
    pub fired: AtomicBool,
    pub exhausted: AtomicBool,
    /// set by an observer (e.g. self-enqueue detection) to stop the run
    pub force_stop: AtomicBool,
    pub log: Arc<Log<S>>,
    /// optional scheduling yield point
    pub yield_hook: Option<Arc<dyn Fn() + Send + Sync>>,
    /// event trigger: once set (by the scheduler, on the n-th occurrence of a chosen event) every poll answers stop
    pub trigger: Option<Arc<AtomicBool>>,
}
impl<S> CountCut<S> {
    pub fn new(fire_at: Option<usize>, budget: usize, log: Arc<Log<S>>) -> Self {
        CountCut {
            fire_at: fire_at.unwrap_or(usize::MAX),
            budget,
            polls: AtomicUsize::new(0),
            fired: AtomicBool::new(false),
            exhausted: AtomicBool::new(false),
            force_stop: AtomicBool::new(false),
            log,
            yield_hook: None,
            trigger: None,
        }
    }
    pub fn nb_polls(&self) -> usize {
        self.polls.load(AO::SeqCst)
    }
}
impl<S> Cutoff for CountCut<S> {
    fn must_stop(&self) -> bool {
        if let Some(y) = &self.yield_hook {
            y();
        }
        let idx = self.polls.fetch_add(1, AO::SeqCst) + 1;
        let mut ret = false;
        if idx >= self.fire_at {
            self.fired.store(true, AO::SeqCst);
            ret = true;
        }
        if idx > self.budget {
            self.exhausted.store(true, AO::SeqCst);
            ret = true;
        }
        if self.force_stop.load(AO::SeqCst) {
            ret = true;
        }
        if let Some(t) = &self.trigger {
            if t.load(AO::SeqCst) {
                self.fired.store(true, AO::SeqCst);
                ret = true;
            }
        }
        self.log.push(|| Ev::Poll { idx, ret });
        ret
    }
}

/// Recording fringe wrapper. It also mirrors its length in an atomic so that
/// a scheduler callback can read it without touching the inner fringe.
pub struct RecFringe<'a, S> {
    pub inner: &'a mut (dyn Fringe<State = S> + Send + Sync),
    pub log: Arc<Log<S>>,
    pub len_mirror: Arc<AtomicUsize>,
    /// when set: a pushed sub-problem equal (state, depth) to the one most recently popped *by the same thread*
    pub on_push: Option<Arc<dyn Fn(&SubProblem<S>) + Send + Sync>>,
    pub on_pop: Option<Arc<dyn Fn(&SubProblem<S>) + Send + Sync>>,
}
impl<S: Clone> Fringe for RecFringe<'_, S> {
    type State = S;
    fn push(&mut self, node: SubProblem<S>) {
        if let Some(f) = &self.on_push {
            f(&node);
        }
        let before = self.inner.len();
        let (state, depth, value, ub, path) = if self.log.on { (Some((*node.state).clone()), node.depth, node.value, node.ub, node.path.clone()) } else { (None, 0, 0, 0, vec![]) };
        self.inner.push(node);
        let after = self.inner.len();
        self.len_mirror.store(after, AO::SeqCst);
        bump(&self.log.c.pushes);
        if after == before {
            bump(&self.log.c.coalesced);
        }
        self.log.push(|| Ev::Push { state: state.unwrap(), depth, value, ub, path, len_before: before, len_after: after });
    }
    fn pop(&mut self) -> Option<SubProblem<S>> {
        let r = self.inner.pop();
        self.len_mirror.store(self.inner.len(), AO::SeqCst);
        if let Some(n) = &r {
            bump(&self.log.c.pops);
            if let Some(f) = &self.on_pop {
                f(n);
            }
            self.log.push(|| Ev::Pop { state: (*n.state).clone(), depth: n.depth, value: n.value, ub: n.ub, path: n.path.clone() });
        }
        r
    }
    fn clear(&mut self) {
        self.inner.clear();
        self.len_mirror.store(self.inner.len(), AO::SeqCst);
        self.log.push(|| Ev::FringeClear);
    }
    fn len(&self) -> usize {
        self.inner.len()
    }
}

/// A correct fringe per the `Fringe` contract (pops a max-ub element), which
/// breaks ties among equal-ub entries with generated choices (C09: "every order
/// in which sub-problems are processed").
pub struct TieShuffleFringe<S> {
    pub items: Vec<SubProblem<S>>,
    pub choices: Vec<u8>,
    pub pos: usize,
}
impl<S> TieShuffleFringe<S> {
    pub fn new(choices: Vec<u8>) -> Self {
        TieShuffleFringe { items: vec![], choices, pos: 0 }
    }
}
impl<S> Fringe for TieShuffleFringe<S> {
    type State = S;
    fn push(&mut self, node: SubProblem<S>) {
        self.items.push(node)
    }
    fn pop(&mut self) -> Option<SubProblem<S>> {
        if self.items.is_empty() {
            return None;
        }
        let max = self.items.iter().map(|i| i.ub).max().unwrap();
        let cands: Vec<usize> = (0..self.items.len()).filter(|i| self.items[*i].ub == max).collect();
        let c = if self.pos < self.choices.len() {
            let c = self.choices[self.pos] as usize;
            self.pos += 1;
            (c * cands.len()) >> 8
        } else {
            0
        };
        Some(self.items.remove(cands[c]))
    }
    fn clear(&mut self) {
        self.items.clear()
    }
    fn len(&self) -> usize {
        self.items.len()
    }
}

// ---------------------------------------------------------------------------
// Cache wrapper. The solvers build the cache themselves through `Default`, so
// the observer is handed over through a thread local read in `default()`
// (`default()` runs on the thread that constructs the solver).
// ---------------------------------------------------------------------------
pub trait CacheObserver<S>: Send + Sync {
    fn before(&self, _op: &'static str) {}
    fn get(&self, _state: &S, _depth: usize, _ret: Option<Threshold>) {}
    fn update(&self, _state: &S, _depth: usize, _value: isize, _explored: bool) {}
    fn clear_layer(&self, _depth: usize) {}
    fn clear(&self) {}
}
thread_local! {
    static CACHE_OBS: RefCell<Option<Box<dyn std::any::Any>>> = RefCell::new(None);
}
pub fn set_cache_observer<S: 'static>(obs: Option<Arc<dyn CacheObserver<S>>>) {
    CACHE_OBS.with(|c| *c.borrow_mut() = obs.map(|o| Box::new(o) as Box<dyn std::any::Any>));
}
pub struct HookCache<C: Cache> {
    pub inner: C,
    pub obs: Option<Arc<dyn CacheObserver<C::State>>>,
}
impl<C: Cache + Default> Default for HookCache<C>
where
    C::State: 'static,
{
    fn default() -> Self {
        let obs = CACHE_OBS.with(|c| c.borrow().as_ref().and_then(|b| b.downcast_ref::<Arc<dyn CacheObserver<C::State>>>().cloned()));
        HookCache { inner: C::default(), obs }
    }
}
impl<C: Cache> Cache for HookCache<C> {
    type State = C::State;
    fn initialize(&mut self, problem: &dyn Problem<State = Self::State>) {
        self.inner.initialize(problem)
    }
    fn get_threshold(&self, state: &Self::State, depth: usize) -> Option<Threshold> {
        if let Some(o) = &self.obs {
            o.before("get");
        }
        let r = self.inner.get_threshold(state, depth);
        if let Some(o) = &self.obs {
            o.get(state, depth, r);
        }
        r
    }
    fn update_threshold(&self, state: Arc<Self::State>, depth: usize, value: isize, explored: bool) {
        if let Some(o) = &self.obs {
            o.before("update");
            o.update(state.as_ref(), depth, value, explored);
        }
        self.inner.update_threshold(state, depth, value, explored)
    }
    fn clear_layer(&self, depth: usize) {
        if let Some(o) = &self.obs {
            o.clear_layer(depth);
        }
        self.inner.clear_layer(depth)
    }
    fn clear(&self) {
        if let Some(o) = &self.obs {
            o.clear();
        }
        self.inner.clear()
    }
    // must_explore: deliberately NOT overridden - the default (documented) formula of the trait is what the solvers use
}

/// logs cache traffic
pub struct LogCacheObs<S> {
    pub log: Arc<Log<S>>,
    pub yield_hook: Option<Arc<dyn Fn() + Send + Sync>>,
}
impl<S: Clone + Send + Sync> CacheObserver<S> for LogCacheObs<S> {
    fn before(&self, _op: &'static str) {
        if let Some(y) = &self.yield_hook {
            y()
        }
    }
    fn get(&self, state: &S, depth: usize, ret: Option<Threshold>) {
        if ret.is_some() {
            bump(&self.log.c.cache_some);
        }
        self.log.push(|| Ev::CacheGet { state: state.clone(), depth, ret });
    }
    fn update(&self, state: &S, depth: usize, value: isize, explored: bool) {
        bump(&self.log.c.cache_updates);
        self.log.push(|| Ev::CacheUpdate { state: state.clone(), depth, value, explored });
    }
    fn clear_layer(&self, depth: usize) {
        self.log.push(|| Ev::CacheClearLayer { depth });
    }
    fn clear(&self) {
        self.log.push(|| Ev::CacheClear);
    }
}

/// Recording dominance checker wrapper
pub struct RecDom<'a, S> {
    pub inner: &'a (dyn DominanceChecker<State = S> + Send + Sync),
    pub log: Arc<Log<S>>,
    pub yield_hook: Option<Arc<dyn Fn() + Send + Sync>>,
}
impl<S: Clone> DominanceChecker for RecDom<'_, S> {
    type State = S;
    fn clear_layer(&self, depth: usize) {
        self.inner.clear_layer(depth)
    }
    fn is_dominated_or_insert(&self, state: Arc<S>, depth: usize, value: isize) -> DominanceCheckResult {
        if let Some(y) = &self.yield_hook {
            y()
        }
        let r = self.inner.is_dominated_or_insert(state.clone(), depth, value);
        bump(&self.log.c.dom_checks);
        if r.dominated {
            bump(&self.log.c.dom_pruned);
        }
        self.log.push(|| Ev::DomCheck { state: (*state).clone(), depth, value, dominated: r.dominated, threshold: r.threshold });
        r
    }
    fn cmp(&self, a: &S, val_a: isize, b: &S, val_b: isize) -> std::cmp::Ordering {
        self.inner.cmp(a, val_a, b, val_b)
    }
}

pub fn hash64<T: Hash>(t: &T) -> u64 {
    fxhash::hash64(t)
}
