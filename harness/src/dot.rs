//! A small parser for the DOT language, written from the Graphviz grammar (not from the emitter):
//!   graph     : [strict] (graph|digraph) [ID] '{' stmt_list '}'
//!   stmt_list : [ stmt [';'] stmt_list ]
//!   stmt      : node_stmt | edge_stmt | attr_stmt | ID '=' ID | subgraph
//!   attr_stmt : (graph|node|edge) attr_list
//!   attr_list : '[' [a_list] ']' [attr_list]
//!   a_list    : ID '=' ID [(';'|',')] [a_list]
//!   edge_stmt : (node_id|subgraph) edgeRHS [attr_list]      edgeRHS : edgeop (node_id|subgraph) [edgeRHS]
//!   node_stmt : node_id [attr_list]                          node_id : ID [port]
//!   subgraph  : [subgraph [ID]] '{' stmt_list '}'
//! An ID is an alphanumeric string not starting with a digit, a numeral, or a double-quoted
//! string (\" is the only escape that matters to the lexer). HTML strings and ports are not supported
//! (and reported as errors), comments are.
use std::collections::BTreeMap;

#[derive(Clone, Debug, PartialEq)]
enum Tok {
    Id(String),
    /// quoted string, content with the escape sequences left as they are (except \" -> ")
    Str(String),
    LBrace,
    RBrace,
    LBracket,
    RBracket,
    Eq,
    Comma,
    Semi,
    Arrow,
    Dash2,
}

fn lex(src: &str) -> Result<Vec<Tok>, String> {
    let b: Vec<char> = src.chars().collect();
    let mut i = 0;
    let mut out = vec![];
    while i < b.len() {
        let c = b[i];
        if c.is_whitespace() {
            i += 1;
        } else if c == '/' && i + 1 < b.len() && b[i + 1] == '/' {
            while i < b.len() && b[i] != '\n' {
                i += 1;
            }
        } else if c == '/' && i + 1 < b.len() && b[i + 1] == '*' {
            i += 2;
            while i + 1 < b.len() && !(b[i] == '*' && b[i + 1] == '/') {
                i += 1;
            }
            if i + 1 >= b.len() {
                return Err("unterminated comment".into());
            }
            i += 2;
        } else if c == '#' && (i == 0 || b[i - 1] == '\n') {
            while i < b.len() && b[i] != '\n' {
                i += 1;
            }
        } else if c == '"' {
            i += 1;
            let mut s = String::new();
            loop {
                if i >= b.len() {
                    return Err("unterminated string".into());
                }
                if b[i] == '\\' && i + 1 < b.len() {
                    if b[i + 1] == '"' {
                        s.push('"');
                    } else {
                        s.push('\\');
                        s.push(b[i + 1]);
                    }
                    i += 2;
                } else if b[i] == '"' {
                    i += 1;
                    break;
                } else {
                    s.push(b[i]);
                    i += 1;
                }
            }
            out.push(Tok::Str(s));
        } else if c.is_alphabetic() || c == '_' {
            let st = i;
            while i < b.len() && (b[i].is_alphanumeric() || b[i] == '_') {
                i += 1;
            }
            out.push(Tok::Id(b[st..i].iter().collect()));
        } else if c.is_ascii_digit() || c == '.' || (c == '-' && i + 1 < b.len() && (b[i + 1].is_ascii_digit() || b[i + 1] == '.')) {
            let st = i;
            i += 1;
            while i < b.len() && (b[i].is_ascii_digit() || b[i] == '.') {
                i += 1;
            }
            let s: String = b[st..i].iter().collect();
            if s == "." || s == "-." || s.matches('.').count() > 1 {
                return Err(format!("malformed numeral '{s}'"));
            }
            // a numeral immediately followed by a letter is not an ID
            if i < b.len() && (b[i].is_alphabetic() || b[i] == '_') {
                return Err(format!("malformed ID starting with a digit near '{s}{}'", b[i]));
            }
            out.push(Tok::Id(s));
        } else {
            match c {
                '{' => out.push(Tok::LBrace),
                '}' => out.push(Tok::RBrace),
                '[' => out.push(Tok::LBracket),
                ']' => out.push(Tok::RBracket),
                '=' => out.push(Tok::Eq),
                ',' => out.push(Tok::Comma),
                ';' => out.push(Tok::Semi),
                '-' => {
                    if i + 1 < b.len() && b[i + 1] == '>' {
                        out.push(Tok::Arrow);
                        i += 1;
                    } else if i + 1 < b.len() && b[i + 1] == '-' {
                        out.push(Tok::Dash2);
                        i += 1;
                    } else {
                        return Err("stray '-'".into());
                    }
                }
                '<' => return Err("HTML strings are not supported".into()),
                ':' => return Err("ports are not supported".into()),
                other => return Err(format!("unexpected character '{other}'")),
            }
            i += 1;
        }
    }
    Ok(out)
}

pub type Attrs = BTreeMap<String, String>;
#[derive(Clone, Debug, Default)]
pub struct Graph {
    pub directed: bool,
    pub graph_attrs: Attrs,
    /// node statements at any nesting level: (id, attributes, has an attribute list, enclosing subgraph)
    pub node_stmts: Vec<(String, Attrs, bool, Option<String>)>,
    pub edges: Vec<(String, String, Attrs)>,
    pub subgraphs: Vec<(Option<String>, Attrs)>,
}

struct P {
    t: Vec<Tok>,
    i: usize,
    g: Graph,
}
impl P {
    fn peek(&self) -> Option<&Tok> {
        self.t.get(self.i)
    }
    fn next(&mut self) -> Option<Tok> {
        let t = self.t.get(self.i).cloned();
        self.i += 1;
        t
    }
    fn id(&mut self) -> Result<String, String> {
        match self.next() {
            Some(Tok::Id(s)) | Some(Tok::Str(s)) => Ok(s),
            t => Err(format!("expected an ID, found {:?}", t)),
        }
    }
    fn attr_list(&mut self) -> Result<Attrs, String> {
        let mut a = Attrs::new();
        while self.peek() == Some(&Tok::LBracket) {
            self.next();
            loop {
                match self.peek() {
                    Some(Tok::RBracket) => {
                        self.next();
                        break;
                    }
                    Some(Tok::Id(_)) | Some(Tok::Str(_)) => {
                        let k = self.id()?;
                        if self.next() != Some(Tok::Eq) {
                            return Err(format!("expected '=' after attribute name {k}"));
                        }
                        let v = self.id()?;
                        a.insert(k, v);
                        if matches!(self.peek(), Some(Tok::Comma) | Some(Tok::Semi)) {
                            self.next();
                        }
                    }
                    t => return Err(format!("unexpected token {:?} in attribute list", t)),
                }
            }
        }
        Ok(a)
    }
    fn stmt_list(&mut self, sub: Option<String>) -> Result<(), String> {
        loop {
            match self.peek().cloned() {
                None => return Err("unexpected end of input inside a statement list".into()),
                Some(Tok::RBrace) => return Ok(()),
                Some(Tok::Semi) => {
                    self.next();
                }
                Some(Tok::LBrace) => {
                    self.next();
                    self.stmt_list(sub.clone())?;
                    if self.next() != Some(Tok::RBrace) {
                        return Err("expected '}'".into());
                    }
                }
                Some(Tok::Id(ref k)) if k.eq_ignore_ascii_case("subgraph") => {
                    self.next();
                    let name = match self.peek() {
                        Some(Tok::Id(_)) | Some(Tok::Str(_)) => Some(self.id()?),
                        _ => None,
                    };
                    if self.next() != Some(Tok::LBrace) {
                        return Err("expected '{' after subgraph".into());
                    }
                    let before = self.g.graph_attrs.clone();
                    self.g.graph_attrs = Attrs::new();
                    self.stmt_list(Some(name.clone().unwrap_or_default()))?;
                    let sub_attrs = std::mem::replace(&mut self.g.graph_attrs, before);
                    if self.next() != Some(Tok::RBrace) {
                        return Err("expected '}' at the end of a subgraph".into());
                    }
                    self.g.subgraphs.push((name, sub_attrs));
                }
                Some(Tok::Id(ref k)) if ["graph", "node", "edge"].contains(&k.to_ascii_lowercase().as_str()) && self.t.get(self.i + 1) == Some(&Tok::LBracket) => {
                    self.next();
                    self.attr_list()?;
                }
                Some(Tok::Id(_)) | Some(Tok::Str(_)) => {
                    let a = self.id()?;
                    match self.peek() {
                        Some(Tok::Eq) => {
                            self.next();
                            let v = self.id()?;
                            self.g.graph_attrs.insert(a, v);
                        }
                        Some(Tok::Arrow) | Some(Tok::Dash2) => {
                            let mut chain = vec![a];
                            while matches!(self.peek(), Some(Tok::Arrow) | Some(Tok::Dash2)) {
                                let op = self.next();
                                if self.g.directed != (op == Some(Tok::Arrow)) {
                                    return Err("edge operator does not match the graph type".into());
                                }
                                chain.push(self.id()?);
                            }
                            let attrs = self.attr_list()?;
                            for w in chain.windows(2) {
                                self.g.edges.push((w[0].clone(), w[1].clone(), attrs.clone()));
                            }
                        }
                        _ => {
                            let has = self.peek() == Some(&Tok::LBracket);
                            let attrs = self.attr_list()?;
                            self.g.node_stmts.push((a, attrs, has, sub.clone()));
                        }
                    }
                }
                Some(t) => return Err(format!("unexpected token {:?} at the start of a statement", t)),
            }
        }
    }
}

pub fn parse(src: &str) -> Result<Graph, String> {
    let t = lex(src)?;
    let mut p = P { t, i: 0, g: Graph::default() };
    if let Some(Tok::Id(s)) = p.peek() {
        if s.eq_ignore_ascii_case("strict") {
            p.next();
        }
    }
    match p.next() {
        Some(Tok::Id(s)) if s.eq_ignore_ascii_case("digraph") => p.g.directed = true,
        Some(Tok::Id(s)) if s.eq_ignore_ascii_case("graph") => p.g.directed = false,
        t => return Err(format!("expected 'digraph' or 'graph', found {:?}", t)),
    }
    if matches!(p.peek(), Some(Tok::Id(_)) | Some(Tok::Str(_))) {
        p.id()?;
    }
    if p.next() != Some(Tok::LBrace) {
        return Err("expected '{'".into());
    }
    p.stmt_list(None)?;
    if p.next() != Some(Tok::RBrace) {
        return Err("expected the closing '}'".into());
    }
    if p.i != p.t.len() {
        return Err("trailing tokens after the graph".into());
    }
    Ok(p.g)
}

#[cfg(test)]
mod tests {
    use super::*;
    #[test]
    fn parses_simple() {
        let g = parse("digraph {\n\tranksep = 3;\n\t0 [shape=circle,color=\"#99ccff\",label=\"a \\\"b\\\"\\nval: 3\"];\n\t0 -> 1 [penwidth=3,label=\"(x0 = 1)\\ncost = -2\"];\n\tsubgraph cluster_1 {\n\t\tstyle=filled;\n\t\t3;4\n\t};\n\tterminal [shape=\"circle\"];\n}\n").unwrap();
        assert_eq!(g.node_stmts.len(), 4);
        assert_eq!(g.edges.len(), 1);
        assert_eq!(g.subgraphs.len(), 1);
        assert_eq!(g.graph_attrs.get("ranksep").unwrap(), "3");
    }
    #[test]
    fn rejects_garbage() {
        assert!(parse("digraph { a -> ; }").is_err());
        assert!(parse("digraph { a [x=1 }").is_err());
        assert!(parse("digraph { \"abc }").is_err());
        assert!(parse("digraph { a -> b ").is_err());
        assert!(parse("digraph { 1a; }").is_err());
    }
}
