//! Properties of the parallel solver under owned schedules: C03, C04 and the parallel parts of
//! C02, C05, C09, C14 (DESIGN §6, §7).
use crate::infra::*;
use crate::model::*;
use crate::props::PropDef;
use crate::run::*;
use crate::sched::*;
use proptest::prelude::*;
use serde_json::Value;

#[derive(Clone, Debug)]
pub struct ParGen {
    pub threads: (usize, usize),
    pub builder: bool,
    pub cutoff: bool,
    pub primal: bool,
    pub cache_simple_only: bool,
    pub dom: Option<bool>,
    pub max_fire: usize,
}
impl Default for ParGen {
    fn default() -> Self {
        ParGen { threads: (1, 4), builder: false, cutoff: false, primal: false, cache_simple_only: false, dom: None, max_fire: 80 }
    }
}

pub fn sched_strategy() -> impl Strategy<Value = SchedSpec> {
    prop_oneof![
        5 => prop::collection::vec(prop_oneof![3 => Just(0u8), 2 => any::<u8>()], 0..300).prop_map(SchedSpec::Bytes),
        2 => prop::collection::vec(any::<u8>(), 0..300).prop_map(SchedSpec::Bytes),
        2 => (prop::collection::vec(any::<u8>(), 8), prop::collection::vec(0u16..400, 0..4)).prop_map(|(prios, changes)| SchedSpec::Pct { prios, changes }),
    ]
}

pub fn par_case_strategy(g: ParGen) -> impl Strategy<Value = ParCase> {
    // instances on which the search really fans out (measured: share of runs in which >= 2 workers hold nodes)
    let p = GenParams { n: (3, 7), b: (2, 4), nd: (2, 3), embed: None, allow_irrelevance: true, allow_potential: true };
    let cg = ConfigGen { max_width: 2, narrow_only: true, cache: if g.cache_simple_only { Some(vec![CacheKind::Simple]) } else { None }, dom: g.dom, ..Default::default() };
    let threads = g.threads.0..=g.threads.1;
    let builder = if g.builder { prop_oneof![1 => Just(None), 2 => (1usize..=8).prop_map(Some)].boxed() } else { Just(None).boxed() };
    let fire = if g.cutoff { prop_oneof![1 => Just(None), 6 => (1usize..=g.max_fire).prop_map(Some)].boxed() } else { Just(None).boxed() };
    let fire_on = if g.cutoff { prop_oneof![2 => Just(None), 3 => (0u8..4, 1usize..12).prop_map(Some)].boxed() } else { Just(None).boxed() };
    let primal = if g.primal { prop_oneof![1 => Just(None), 5 => (0isize..=3, 0usize..64).prop_map(Some)].boxed() } else { Just(None).boxed() };
    (table_strategy(p), config_strategy(cg), threads, builder, (fire, fire_on), any::<bool>(), sched_strategy(), primal).prop_map(|(t, cfg, threads, with_nb_threads, (fire_at, fire_on), fine, sched, primal)| ParCase { t, cfg, threads, with_nb_threads, fire_at: if fire_on.is_some() { None } else { fire_at }, fine, sched, primal, fire_on })
}

pub fn primals_of(case: &ParCase, o: &Oracle) -> Option<Vec<(isize, Vec<ddo::Decision>)>> {
    match case.primal {
        None => Some(vec![]),
        Some((off, idx)) => {
            let opt = o.opt?;
            let sols = o.all_solutions(&case.t, 3000)?;
            let c: Vec<_> = sols.into_iter().filter(|(v, _)| *v == opt - off).collect();
            if c.is_empty() {
                return None;
            }
            let (v, s) = c[idx % c.len()].clone();
            Some(vec![(v, s)])
        }
    }
}

fn describe(r: &SchedReport) -> String {
    format!("steps={} parks={} final={:?} tail={:?}", r.steps, r.parks, r.final_status, r.trace_tail.iter().rev().take(14).rev().collect::<Vec<_>>())
}

/// Executes one scheduled run and applies the oracle of `prop`. Returns the verdict and the choices made.
pub fn eval_par(case: &ParCase, obs: &mut CaseObs, prop: &str, known: &KnownFindings, check_determinism: bool) -> (Verdict, Vec<Choice>) {
    let t = &case.t;
    let o = Oracle::new(t);
    if let Err(e) = o.self_check(t) {
        return (Verdict::HarnessError(e), vec![]);
    }
    let primals = match primals_of(case, &o) {
        Some(p) => p,
        None => {
            obs.label("primal-dropped(no witness of that value)");
            vec![]
        }
    };
    let own = primals.is_empty();
    let nworkers = case.with_nb_threads.unwrap_or(case.threads);
    obs.label(format!("workers:{nworkers}"));
    obs.label(format!("cfg:{}", case.cfg.cell()));
    if let Some(k) = case.with_nb_threads {
        obs.label(if k > case.threads { "builder:more-threads" } else if k < case.threads { "builder:fewer-threads" } else { "builder:same" });
    }
    if case.fine {
        obs.label("fine-yields");
    }
    if let Some((k, _)) = case.fire_on {
        obs.label(format!("cutoff-on-event:{}", ["after-node-finished", "after-enqueue-cutset", "after-work-item", "after-update-best"][k as usize % 4]));
    }
    obs.label(match case.sched {
        SchedSpec::Bytes(_) => "sched:bytes",
        SchedSpec::Explicit(_) => "sched:systematic",
        SchedSpec::Pct { .. } => "sched:pct",
    });
    let outcome = run_scheduled(case, &o, primals.clone(), false);
    let (out, rep) = match outcome {
        SchedOutcome::HarnessTimeout => return (Verdict::HarnessError("scheduled run: neither a result nor a scheduler verdict within 30 s although exactly one worker held the turn: a worker announced as notified (AfterNotifyAll hook) never resumed, i.e. the scheduler no longer models the code under test (or the machine is badly overloaded). Inconclusive; the remaining scheduled cases of this process are skipped".into()), vec![]),
        SchedOutcome::Stuck(rep) => {
            let why = match &rep.stuck {
                Some(Stuck::Deadlock(st)) => format!("deadlock: no runnable worker while some are parked for ever; worker states {:?}; a worker panicked: {}", st, rep.worker_panicked),
                Some(Stuck::StepLimit(s)) => format!("no termination within the step bound ({s} scheduling steps)"),
                None => "stuck".to_string(),
            };
            obs.label("outcome:stuck");
            let choices = rep.choices.clone();
            return (Verdict::Fail(format!("parallel maximize() never returns: {why} [{}]", describe(&rep))), choices);
        }
        SchedOutcome::Done(out, rep) => (out, rep),
    };
    let choices = rep.choices.clone();
    if rep.mutex_violation {
        return (Verdict::HarnessError("two workers inside the critical section at once: the scheduler does not own the schedule".into()), choices);
    }
    if check_determinism {
        match run_scheduled(case, &o, primals.clone(), false) {
            SchedOutcome::Done(_, rep2) => {
                if rep2.trace_hash != rep.trace_hash {
                    return (Verdict::HarnessError(format!("scheduled run is not reproducible: traces differ ({} vs {} events)", rep.trace_len, rep2.trace_len)), choices);
                }
            }
            _ => return (Verdict::HarnessError("scheduled run is not reproducible: second execution got stuck".into()), choices),
        }
        obs.label("determinism-rechecked");
    }
    // ---- labels / non-triviality ------------------------------------------------
    let multi = rep.workers_with_nodes >= 2 && rep.interleaved_inside_node;
    if multi {
        obs.label("interleaved:>=2 workers with nodes");
    }
    if rep.parks > 0 {
        obs.label("parked");
    }
    if rep.resumes_after_park > 0 {
        obs.label("park-and-resume");
    }
    if out.fired {
        obs.label("cutoff-fired");
    }
    if rep.abort_with_other_in_flight {
        obs.label("abort-while-other-in-flight");
    }
    if rep.skipped_notifications > 0 {
        obs.label("AfterNotifyAll-without-real-notification");
    }
    if rep.silent_parks > 0 {
        obs.label("worker-slept-outside-of-the-hooks");
    }
    obs.label(format!(
        "decisions:{}",
        match rep.choices.len() {
            0..=9 => "0-9",
            10..=49 => "10-49",
            50..=199 => "50-199",
            _ => "200+",
        }
    ));
    let uninterrupted = !out.fired;
    let fail = |m: String| Verdict::Fail(format!("{m} [{:?}] [{}]", out, describe(&rep)));
    let v = match prop {
        "C03" => {
            obs.nontrivial = multi;
            match check_exact_run(&o, &out) {
                Ok(()) => Verdict::Pass,
                Err(e) => fail(e),
            }
        }
        "C04" => {
            obs.nontrivial = rep.resumes_after_park > 0 || case.with_nb_threads.map_or(false, |k| k != case.threads) || rep.abort_with_other_in_flight;
            if rep.worker_panicked || out.panic.is_some() {
                fail(format!("a worker crashed: {:?}", out.panic))
            } else if let Some(m) = &rep.complete_with_open_work {
                fail(format!("search declared complete too early: {m}"))
            } else if out.exhausted {
                fail("no termination: the proven poll budget was exhausted".into())
            } else {
                Verdict::Pass
            }
        }
        "C05" => {
            obs.nontrivial = out.fired && rep.abort_with_other_in_flight;
            let opt_or_neg = o.opt.unwrap_or(isize::MIN);
            if let Some(p) = &out.panic {
                fail(format!("solver panicked: {p}"))
            } else if !(out.lb <= opt_or_neg && opt_or_neg <= out.ub) {
                fail(format!("bounds [{}, {}] do not contain the true optimum {:?}", out.lb, out.ub, o.opt))
            } else if let Err(e) = check_solution(t, &out, false, own) {
                fail(e)
            } else if out.completion.as_ref().unwrap().is_exact && out.completion.as_ref().unwrap().best_value != o.opt {
                fail(format!("is_exact = true but the value is not the optimum {:?}", o.opt))
            } else {
                Verdict::Pass
            }
        }
        "C02" => {
            obs.nontrivial = out.best_solution.is_some() && (multi || out.fired);
            if out.panic.is_some() {
                Verdict::Pass
            } else {
                match check_solution(t, &out, uninterrupted, own) {
                    Ok(()) => Verdict::Pass,
                    Err(e) => fail(e),
                }
            }
        }
        "C09" => {
            obs.nontrivial = out.c.cache_some > 0 && rep.workers_with_nodes >= 2;
            match check_exact_run(&o, &out).and_then(|_| check_solution(t, &out, true, true)) {
                Ok(()) => Verdict::Pass,
                Err(e) => fail(e),
            }
        }
        "C10" => {
            obs.nontrivial = out.c.dom_pruned > 0 && rep.workers_with_nodes >= 2;
            match check_exact_run(&o, &out) {
                Ok(()) => Verdict::Pass,
                Err(e) => fail(e),
            }
        }
        "C14" => {
            let off = case.primal.map(|p| p.0);
            obs.nontrivial = !own && off.map_or(false, |o| o <= 1);
            if let Some(off) = off {
                if !own {
                    obs.label(format!("primal:opt-{off}"));
                }
            }
            match check_exact_run(&o, &out).and_then(|_| check_solution(t, &out, true, true)) {
                Ok(()) => Verdict::Pass,
                Err(e) => fail(e),
            }
        }
        _ => Verdict::HarnessError(format!("eval_par: unknown property {prop}")),
    };
    let _ = known;
    (v, choices)
}

/// Systematic exploration: every schedule with at most `bound` deviations from the default
/// (non pre-emptive, lowest id) schedule. Returns (runs, complete?)
pub fn systematic(ctx: &mut Ctx, part: &str, base: &ParCase, prop: &str, bound: usize, max_runs: usize) -> (usize, bool) {
    let known = ctx.known.clone();
    let mut stack: Vec<(Vec<usize>, usize)> = vec![(vec![], 0)];
    let mut runs = 0;
    let mut complete = true;
    while let Some((prefix, devs)) = stack.pop() {
        if runs >= max_runs {
            complete = false;
            break;
        }
        let mut case = base.clone();
        case.sched = SchedSpec::Explicit(prefix.clone());
        let mut obs = CaseObs::default();
        let (v, choices) = eval_par(&case, &mut obs, prop, &known, false);
        runs += 1;
        let failed = matches!(v, Verdict::Fail(_));
        ctx.account(part, obs, || serde_json::to_value(&case).unwrap(), v);
        if failed {
            return (runs, false);
        }
        if devs < bound {
            for p in (prefix.len()..choices.len()).rev() {
                for alt in 1..choices[p].ncands {
                    let mut np = prefix.clone();
                    np.resize(p, 0);
                    np.push(alt);
                    stack.push((np, devs + 1));
                }
            }
        }
    }
    (runs, complete)
}

pub fn run_prop(ctx: &mut Ctx, prop: &'static str, g: ParGen, random_cases: u32, sys_bases: usize, sys_bound: usize, sys_max_runs: usize) {
    let known = ctx.known.clone();
    let check_det = ctx.tier == Tier::Thorough;
    // ---- random / PCT schedules ---------------------------------------------
    let strat = par_case_strategy(g.clone());
    let counter = std::cell::Cell::new(0u32);
    ctx.pt_run(&format!("par-random-schedules"), random_cases, strat, |c| serde_json::to_value(c).unwrap(), |c, obs| {
        counter.set(counter.get() + 1);
        eval_par(c, obs, prop, &known, check_det || counter.get() % 16 == 0).0
    });
    // ---- systematic enumeration on small bases ------------------------------------
    let mut gs = g.clone();
    gs.threads = (2, g.threads.1.min(3));
    gs.max_fire = 30;
    let bases: Vec<ParCase> = sample_values(&par_case_strategy(gs), ctx.part_seed("par-systematic"), sys_bases);
    let mut all_complete = true;
    for mut b in bases {
        // keep systematic bases small: the number of schedules grows with the number of decision points
        if b.t.n > 4 {
            continue;
        }
        b.fine = false;
        let (_, complete) = systematic(ctx, "par-systematic", &b, prop, sys_bound, sys_max_runs);
        all_complete &= complete;
        if !ctx.stats.violations.is_empty() {
            break;
        }
    }
    ctx.stats.exhaustive.insert(format!("par-systematic: every schedule with <= {sys_bound} deviation(s) from the default schedule, per base case (critical-section granularity)"), all_complete);
}

pub fn replay(_part: &str, case: &Value, known: &KnownFindings, prop: &str) -> Verdict {
    match serde_json::from_value::<ParCase>(case.clone()) {
        Ok(c) => {
            c.t.validate();
            eval_par(&c, &mut CaseObs::default(), prop, known, false).0
        }
        Err(e) => Verdict::HarnessError(format!("cannot decode replay case: {e}")),
    }
}

// ---------------------------------------------------------------------------------------------
pub fn def_c03() -> PropDef {
    PropDef {
        id: "C03",
        run: |ctx| {
            let (rc, sb, bound, mr) = match ctx.tier {
                Tier::Quick => (5_000, 12, 1, 1500),
                Tier::Thorough => (40_000, 40, 2, 60_000),
            };
            run_prop(ctx, "C03", ParGen::default(), rc, sb, bound, mr);
            stress(ctx, "C03");
            nodup_reconvergent(ctx);
        },
        replay: |p, c, k| if p == "stress-nodup-knapsack" { match serde_json::from_value::<crate::families::FamCase>(c.clone()) { Ok(fc) => crate::props::fam::eval_family(&fc, &mut CaseObs::default(), "C03"), Err(e) => Verdict::HarnessError(format!("cannot decode replay case: {e}")) } } else if p.starts_with("stress") { stress_replay(c, "C03") } else { replay(p, c, k, "C03") },
        meta: || EvidenceMeta {
            rule: "cases = (generated instance, configuration, 1..4 workers, schedule) executed by ParallelSolver under a cooperative scheduler that owns the order of the workers' critical sections (hooks) and, when 'fine', of cutoff polls / cache accesses / dominance checks; schedules are random bytes (shrinkable towards the non pre-emptive schedule), PCT-style priorities, or systematically enumerated (all schedules with <= d deviations from the default schedule for a pool of small bases); plus un-scheduled real-thread stress with 2..16 workers. Oracle: exact h* optimum, is_exact, no panic, returns. Non-trivial = at least two workers each processed a sub-problem and a worker was switched out while it held one; distinct = hash of the serialised case incl. schedule.".into(),
            assumptions: vec![
                "interleavings are owned at the granularity of critical sections (+ polls/cache/dominance operations), not of single instructions; races inside one dashmap operation are sampled by real-thread stress only".into(),
                "the scheduled run is a pure function of the case: re-executed and trace-compared on a sample (all cases in the thorough tier)".into(),
            ],
        },
    }
}
pub fn def_c04() -> PropDef {
    PropDef {
        id: "C04",
        run: |ctx| {
            let (rc, sb, bound, mr) = match ctx.tier {
                Tier::Quick => (5_000, 12, 1, 1500),
                Tier::Thorough => (20_000, 40, 2, 60_000),
            };
            run_prop(ctx, "C04", ParGen { threads: (1, 8), builder: true, cutoff: true, ..Default::default() }, rc, sb, bound, mr);
            stress(ctx, "C04");
        },
        replay: |p, c, k| if p.starts_with("stress") { stress_replay(c, "C04") } else { replay(p, c, k, "C04") },
        meta: || EvidenceMeta {
            rule: "cases = (instance, configuration, construction-time thread count 1..8, optional with_nb_threads(1..8) smaller/equal/larger, cutoff firing at a generated poll index or never, schedule) under the cooperative scheduler. Oracle = scheduler state: deadlock (no runnable worker while one is parked), worker exit by panic, 'complete' handed to a worker while nodes are in progress or open (event trace + fringe length), step bound. Non-trivial = a worker parked and was resumed, or the thread count was changed through the builder, or the cutoff fired while another worker held a node; distinct = hash of the serialised case.".into(),
            assumptions: vec!["liveness is checked as 'returns within the step bound under every explored schedule' + structural deadlock detection".into()],
        },
    }
}

pub fn run_c05_parallel(ctx: &mut Ctx) {
    let (rc, sb, bound, mr) = match ctx.tier {
        Tier::Quick => (4_000, 8, 1, 1200),
        Tier::Thorough => (20_000, 30, 2, 60_000),
    };
    run_prop(ctx, "C05", ParGen { threads: (1, 4), cutoff: true, ..Default::default() }, rc, sb, bound, mr);
    stress(ctx, "C05");
}

// ---------------------------------------------------------------------------------------------
// un-scheduled real-thread stress (no callback installed): same oracles, OS schedules
// ---------------------------------------------------------------------------------------------
#[derive(Clone, Debug, serde::Serialize, serde::Deserialize)]
pub struct StressCase {
    pub t: TableDP,
    pub cfg: Config,
    pub threads: usize,
    /// cutoff firing at this poll (C05 stress)
    #[serde(default)]
    pub fire_at: Option<usize>,
}
static STRESS_TIMED_OUT: std::sync::atomic::AtomicBool = std::sync::atomic::AtomicBool::new(false);
fn eval_stress(c: &StressCase, obs: &mut CaseObs, prop: &str) -> Verdict {
    if STRESS_TIMED_OUT.load(std::sync::atomic::Ordering::SeqCst) {
        obs.label("stress-skipped-after-watchdog");
        return Verdict::Pass;
    }
    let o = Oracle::new(&c.t);
    // the OS owns the schedule here: a run that does not come back is only observable through a
    // wall-clock watchdog, which is reported as inconclusive (exit 2), never as a violation
    let (tx, rx) = std::sync::mpsc::channel();
    let (t2, o2, cfg2, th, fire_at) = (c.t.clone(), o.clone(), c.cfg.clone(), c.threads, c.fire_at);
    std::thread::spawn(move || {
        let out = run_table(&t2, &o2, &cfg2, &RunOpts { threads: Some(th), fire_at, ..Default::default() });
        let _ = tx.send(out);
    });
    let out = match rx.recv_timeout(std::time::Duration::from_secs(60)) {
        Ok(o) => o,
        Err(_) => {
            STRESS_TIMED_OUT.store(true, std::sync::atomic::Ordering::SeqCst);
            return Verdict::HarnessError("real-thread stress run did not return within 60 s (inconclusive: wall-clock watchdog)".into());
        }
    };
    if out.watchdog {
        // nothing happened for 30 s of wall-clock time: a time limit is never a verdict (the scheduled parts decide
        // hangs deterministically)
        return Verdict::HarnessError("a real-thread run did not return and was abandoned by the wall-clock watchdog (inconclusive)".into());
    }
    obs.label(format!("stress-threads:{}", c.threads.min(16)));
    obs.nontrivial = out.explored >= 3;
    match prop {
        "C04" => {
            if out.panic.is_some() || out.exhausted {
                return Verdict::Fail(format!("real-thread run crashed or did not terminate: {:?}", out));
            }
            Verdict::Pass
        }
        "C02" => {
            obs.nontrivial = out.explored >= 3 && out.best_solution.is_some();
            match check_solution(&c.t, &out, true, true) {
                Ok(()) => Verdict::Pass,
                Err(e) => Verdict::Fail(format!("real-thread run: {e} [{:?}]", out)),
            }
        }
        "C05" => {
            obs.nontrivial = out.fired && out.lb > isize::MIN && out.ub < isize::MAX;
            if out.fired {
                obs.label("stress-cutoff-fired");
            }
            let opt_or_neg = o.opt.unwrap_or(isize::MIN);
            if let Some(p) = &out.panic {
                return Verdict::Fail(format!("real-thread run panicked: {p}"));
            }
            if !(out.lb <= opt_or_neg && opt_or_neg <= out.ub) {
                return Verdict::Fail(format!("real-thread run cut at poll {:?}: bounds [{}, {}] do not contain the true optimum {:?} [{:?}]", c.fire_at, out.lb, out.ub, o.opt, out));
            }
            if let Err(e) = check_solution(&c.t, &out, false, true) {
                return Verdict::Fail(format!("real-thread run cut at poll {:?}: {e} [{:?}]", c.fire_at, out));
            }
            let comp = out.completion.as_ref().unwrap();
            if comp.is_exact && comp.best_value != o.opt {
                return Verdict::Fail(format!("real-thread run: is_exact but value {:?} is not the optimum {:?}", comp.best_value, o.opt));
            }
            Verdict::Pass
        }
        _ => match check_exact_run(&o, &out).and_then(|_| check_solution(&c.t, &out, true, true)) {
            Ok(()) => Verdict::Pass,
            Err(e) => Verdict::Fail(format!("real-thread run: {e} [{:?}]", out)),
        },
    }
}
pub fn stress(ctx: &mut Ctx, prop: &'static str) {
    if !ctx.stats.violations.is_empty() {
        return; // already decided by the scheduled part; a real-thread hang would only cost a watchdog period
    }
    // shards run concurrently: keep the number of OS threads reasonable
    let cases = ctx.tier.pick(if prop == "C02" { 1_500 } else { 600 }, 8_000);
    let p = GenParams { n: (4, 7), b: (2, 4), nd: (2, 3), embed: None, allow_irrelevance: true, allow_potential: true };
    let with_cut = prop == "C05";
    let strat = (table_strategy(p), config_strategy(ConfigGen { max_width: 2, ..Default::default() }), 2usize..=16, 1usize..120).prop_map(move |(t, cfg, threads, k)| StressCase { t, cfg, threads, fire_at: if with_cut { Some(k) } else { None } });
    ctx.pt_run("stress-real-threads", cases, strat, |c| serde_json::to_value(c).unwrap(), |c, obs| eval_stress(c, obs, prop));
}
/// C03, "every fringe type": larger re-convergent instances with the duplicate-free fringe forced, solved by
/// the parallel solver with 1 or 2 real threads. The parallel solver (unlike the sequential one) stops as
/// soon as the popped node cannot beat the incumbent, which is only sound while the fringe pops its
/// greatest upper bound first; in-place updates of queued entries are where that can break (seeded
/// change C03-S3). The scheduled parts use instances that are too small for such heap layouts.
pub fn nodup_reconvergent(ctx: &mut Ctx) {
    if !ctx.stats.violations.is_empty() {
        return;
    }
    let cases = ctx.tier.pick(5_000, 100_000);
    let p = GenParams { n: (6, 8), b: (3, 4), nd: (2, 3), embed: None, allow_irrelevance: false, allow_potential: true };
    let strat = (table_strategy(p), config_strategy(ConfigGen { max_width: 3, fringe: Some(vec![1]), ..Default::default() }), 1usize..=2).prop_map(|(t, cfg, threads)| StressCase { t, cfg, threads, fire_at: None });
    ctx.pt_run("stress-nodup-reconvergent", cases, strat, |c| serde_json::to_value(c).unwrap(), |c, obs| eval_stress(c, obs, "C03"));
    // the same on knapsacks with 10..=16 items: searches that keep dozens of nodes open at a time
    use crate::families::*;
    let cases = ctx.tier.pick(3_000, 30_000);
    let strat = (knap_large_strategy(), config_strategy(ConfigGen { max_width: 3, fringe: Some(vec![1]), rub_none_only: true, dom: Some(false), ..Default::default() }), 1usize..=2)
        .prop_map(|(k, cfg, threads)| FamCase { fam: Family::Knap(k), dd: cfg.dd, cache: cfg.cache, fringe: cfg.fringe, width: cfg.width, threads: Some(threads) });
    ctx.pt_run("stress-nodup-knapsack", cases, strat, |c| serde_json::to_value(c).unwrap(), |c, obs| crate::props::fam::eval_family(c, obs, "C03"));
}
pub fn stress_replay(case: &Value, prop: &str) -> Verdict {
    match serde_json::from_value::<StressCase>(case.clone()) {
        Ok(c) => {
            // a stress failure is a matter of OS scheduling: try a number of times
            for _ in 0..200 {
                let v = eval_stress(&c, &mut CaseObs::default(), prop);
                if !matches!(v, Verdict::Pass) {
                    return v;
                }
            }
            Verdict::Pass
        }
        Err(e) => Verdict::HarnessError(format!("cannot decode replay case: {e}")),
    }
}
