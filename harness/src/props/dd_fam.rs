//! Diagram-level clauses of C06 / C07 / C08 on the set-packing family (dynamic variable order,
//! long arcs): sub-problems are taken from real cut-sets (two levels deep), every oracle is
//! order-independent brute force over subsets.
use crate::families::*;
use crate::infra::*;
use crate::run::*;
use crate::wrap::*;
use ddo::*;
use proptest::prelude::*;
use serde::{Deserialize, Serialize};
use std::panic::{catch_unwind, AssertUnwindSafe};
use std::sync::Arc;

#[derive(Clone, Debug, Serialize, Deserialize)]
pub struct SpDdCase {
    pub sp: SetPack,
    pub dd: DdKind,
    pub width: usize,
    /// incumbent offset below the sub-problem optimum (None = no incumbent)
    pub inc_below: Option<isize>,
    /// which cut-set node of the first compilation is compiled next (second level)
    pub second: u8,
    pub second_width: usize,
}

fn taken(path: &[Decision]) -> u32 {
    path.iter().filter(|d| d.value == 1).fold(0, |a, d| a | 1 << d.variable.id())
}
fn rejected(path: &[Decision]) -> u32 {
    path.iter().filter(|d| d.value == 0).fold(0, |a, d| a | 1 << d.variable.id())
}
fn independent(sp: &SetPack, set: u32) -> bool {
    (0..sp.n).all(|i| set >> i & 1 == 0 || sp.adj[i] & set == 0)
}
fn weight(sp: &SetPack, set: u32) -> isize {
    (0..sp.n).filter(|i| set >> i & 1 == 1).map(|i| sp.weight[i]).sum()
}
/// the exact state reached by a set of decisions: items neither decided nor in conflict with a taken item
fn state_after(sp: &SetPack, path: &[Decision]) -> u32 {
    let t = taken(path);
    let mut s = ((1u32 << sp.n) - 1) & !t & !rejected(path);
    for i in 0..sp.n {
        if t >> i & 1 == 1 {
            s &= !sp.adj[i];
        }
    }
    s
}
/// (i) a handed-out sub-problem is exact
fn check_exact(sp: &SetPack, s: &CutG) -> Result<(), String> {
    let mut seen = 0u32;
    for d in s.path.iter() {
        if d.variable.id() >= sp.n || seen >> d.variable.id() & 1 == 1 {
            return Err(format!("path {:?} decides a variable twice (or an unknown one)", s.path));
        }
        seen |= 1 << d.variable.id();
        if d.value != 0 && d.value != 1 {
            return Err(format!("decision {:?} outside the domain", d));
        }
    }
    let t = taken(&s.path);
    if !independent(sp, t) {
        return Err(format!("path {:?} takes conflicting items", s.path));
    }
    let st = state_after(sp, &s.path);
    if st != s.state {
        return Err(format!("state {:#b} is not the state reached by its path {:?} (which is {:#b})", s.state, s.path, st));
    }
    if weight(sp, t) != s.value {
        return Err(format!("value {} is not the value of its path {:?} (which is {})", s.value, s.path, weight(sp, t)));
    }
    if s.depth < s.path.len() || s.depth > sp.n {
        return Err(format!("depth {} inconsistent with a path of {} decisions", s.depth, s.path.len()));
    }
    Ok(())
}
/// all completions of an exact sub-problem: independent subsets T of its state; value = value + w(T)
fn completions(sp: &SetPack, state: u32, value: isize) -> Vec<(u32, isize)> {
    let mut out = vec![];
    let mut t = state;
    loop {
        if independent(sp, t) {
            out.push((t, value + weight(sp, t)));
        }
        if t == 0 {
            break;
        }
        t = (t - 1) & state;
    }
    out
}
/// The states completion T (an independent subset of the root's state) goes through, layer by layer,
/// when it follows the variable order the diagram actually used (recorded next_variable answers):
/// (depth, state) pairs below the root. A node of a diagram stands for a state at a depth, so T is
/// contained in a handed-out sub-problem iff it goes through that sub-problem's (state, depth).
fn route(sp: &SetPack, root: &CutG, layer_vars: &[Option<usize>], t: u32) -> Vec<(usize, u32)> {
    let mut out = vec![];
    let mut state = root.state;
    let mut depth = root.depth;
    for v in layer_vars.iter() {
        let Some(v) = v else { break };
        if state >> v & 1 == 1 {
            state = if t >> v & 1 == 1 { state & !(sp.adj[*v] | 1 << v) } else { state & !(1 << v) };
        }
        depth += 1;
        out.push((depth, state));
    }
    out
}

#[derive(Clone, Debug)]
pub struct CutG {
    pub state: u32,
    pub depth: usize,
    pub value: isize,
    pub ub: isize,
    pub path: Vec<Decision>,
}
struct Out {
    is_exact: bool,
    best_value: Option<isize>,
    best_exact_value: Option<isize>,
    best_exact_solution: Option<Vec<Decision>>,
    best_solution: Option<Vec<Decision>>,
    cutset: Vec<CutG>,
    not_impacted: usize,
    merges: usize,
    /// answers of next_variable, layer by layer from the root's depth on
    layer_vars: Vec<Option<usize>>,
}
fn compile<D: DecisionDiagram<State = u32> + Default>(sp: &SetPack, root: &CutG, ctype: CompilationType, width: usize, best_lb: isize) -> Result<Out, String> {
    let log: Arc<Log<u32>> = Log::new(true);
    let pb = RecProblem { inner: sp, log: log.clone() };
    let rlx_inner = SetPackRelax(sp);
    let rlx = RecRelax { inner: &rlx_inner, log: log.clone() };
    let dom = EmptyDominanceChecker::default();
    let cache: EmptyCache<u32> = Default::default();
    let cut = NoCutoff;
    let residual = SubProblem { state: Arc::new(root.state), value: root.value, path: root.path.clone(), ub: isize::MAX, depth: root.depth };
    let input = CompilationInput { comp_type: ctype, problem: &pb, relaxation: &rlx, ranking: &SetPackRank, cutoff: &cut, max_width: width, residual: &residual, best_lb, cache: &cache, dominance: &dom };
    take_panics();
    let r = catch_unwind(AssertUnwindSafe(|| {
        let mut dd = D::default();
        let c = dd.compile(&input).map_err(|_| "cutoff".to_string())?;
        let mut cs = vec![];
        let exact = dd.is_exact();
        if c.is_exact != exact || c.best_value != dd.best_value() {
            return Err("Completion disagrees with the accessors".to_string());
        }
        let (bv, bev, bes, bs) = (dd.best_value(), dd.best_exact_value(), dd.best_exact_solution(), dd.best_solution());
        if ctype == CompilationType::Relaxed && !exact {
            dd.drain_cutset(|s| cs.push(CutG { state: *s.state, depth: s.depth, value: s.value, ub: s.ub, path: s.path.clone() }));
        }
        Ok(Out { is_exact: exact, best_value: bv, best_exact_value: bev, best_exact_solution: bes, best_solution: bs, cutset: cs, not_impacted: 0, merges: 0, layer_vars: vec![] })
    }));
    match r {
        Ok(Ok(mut o)) => {
            let c = log.c.vals();
            o.not_impacted = c.not_impacted;
            o.merges = c.merges;
            o.layer_vars = log.take().into_iter().filter_map(|(_, e)| if let Ev::NextVar { ret, .. } = e { Some(ret) } else { None }).collect();
            Ok(o)
        }
        Ok(Err(e)) => Err(e),
        Err(_) => Err(format!("panic: {:?}", take_panics())),
    }
}
fn compile_kind(sp: &SetPack, dd: DdKind, root: &CutG, ctype: CompilationType, width: usize, best_lb: isize) -> Result<Out, String> {
    match dd {
        DdKind::Lel => compile::<DefaultMDDLEL<u32>>(sp, root, ctype, width, best_lb),
        DdKind::Frontier => compile::<DefaultMDDFC<u32>>(sp, root, ctype, width, best_lb),
        DdKind::Pooled => compile::<Pooled<u32>>(sp, root, ctype, width, best_lb),
    }
}

/// all diagram-level clauses on one exact sub-problem
fn check_sub(sp: &SetPack, dd: DdKind, root: &CutG, width: usize, inc_below: Option<isize>, obs: &mut CaseObs, prop: &str) -> Result<Vec<CutG>, String> {
    let comps = completions(sp, root.state, root.value);
    let subopt = comps.iter().map(|c| c.1).max().unwrap();
    let best_lb = inc_below.map_or(isize::MIN, |d| subopt - d);
    let beats = subopt > best_lb;
    let full_value = |sol: &[Decision]| sp.replay(sol);
    // ---- restricted and exact (C07) -------------------------------------------------
    if prop == "C07" {
        for ctype in [CompilationType::Restricted, CompilationType::Exact] {
            let o = compile_kind(sp, dd, root, ctype, width, best_lb)?;
            if let Some(b) = o.best_value {
                if b > subopt {
                    return Err(format!("{:?} dd reports {b} above the sub-problem optimum {subopt}", ctype));
                }
                let sol = o.best_solution.clone().ok_or("value without solution")?;
                match full_value(&sol) {
                    Ok(v) if v == b => {}
                    r => return Err(format!("{:?} dd: best solution {:?} does not replay to {b}: {:?}", ctype, sol, r)),
                }
            }
            if (ctype == CompilationType::Exact || o.is_exact) && beats && o.best_value != Some(subopt) {
                return Err(format!("{:?} dd (exact = {}) yields {:?} but the sub-problem optimum {subopt} beats the incumbent {best_lb}", ctype, o.is_exact, o.best_value));
            }
        }
        return Ok(vec![]);
    }
    // ---- relaxed (C06, C08) -----------------------------------------------------------
    let o = compile_kind(sp, dd, root, CompilationType::Relaxed, width, best_lb)?;
    if o.not_impacted > 0 {
        obs.label("long-arcs");
    }
    if o.merges > 0 {
        obs.label("merged");
    }
    if prop == "C06" {
        obs.nontrivial |= o.merges > 0;
        if beats && o.best_value.map_or(true, |b| b < subopt) {
            return Err(format!("relaxed bound {:?} below the sub-problem optimum {subopt} which beats the incumbent {best_lb}", o.best_value));
        }
        if let (Some(ev), Some(sol)) = (o.best_exact_value, &o.best_exact_solution) {
            match full_value(sol) {
                Ok(v) if v == ev => {}
                r => return Err(format!("best exact solution {:?} does not replay to the best exact value {ev}: {:?}", sol, r)),
            }
        }
        if o.is_exact && beats && o.best_exact_value != Some(subopt) {
            return Err(format!("relaxed dd declares itself exact with best exact value {:?}, the sub-problem optimum is {subopt}", o.best_exact_value));
        }
        if o.is_exact && o.best_exact_value.map_or(false, |v| v > subopt) {
            return Err("exact relaxed dd above the optimum".into());
        }
    }
    if prop == "C08" && !o.is_exact {
        obs.nontrivial |= o.cutset.len() >= 2;
        obs.label(format!("cutset:{}", o.cutset.len().min(5)));
        for s in o.cutset.iter() {
            check_exact(sp, s).map_err(|e| format!("(i) {e}"))?;
            if s.depth <= root.depth {
                return Err(format!("(ii) cut-set node at depth {} is not strictly deeper than the compiled root (depth {})", s.depth, root.depth));
            }
            let best = completions(sp, s.state, s.value).iter().map(|c| c.1).max().unwrap();
            if best > best_lb && s.ub < best {
                return Err(format!("(iii) cut-set node {:?} carries ub {} below its best completion {best}", s, s.ub));
            }
            // the sub-problem must extend the root's decisions
            if !root.path.iter().all(|r| s.path.iter().any(|d| d == r)) {
                return Err(format!("(i) cut-set path {:?} does not extend the root's path {:?}", s.path, root.path));
            }
        }
        let thr = best_lb.max(o.best_exact_value.unwrap_or(isize::MIN));
        for (t, v) in comps.iter() {
            if *v > thr && !route(sp, root, &o.layer_vars, *t).iter().any(|(d, st)| o.cutset.iter().any(|c| c.depth == *d && c.state == *st)) {
                return Err(format!("(iv) the completion taking items {:#b} (value {v}) beats the incumbent and the best exact value {:?} but passes through no handed-out sub-problem; cut-set {:?}", t, o.best_exact_value, o.cutset));
            }
        }
    }
    Ok(o.cutset)
}

pub fn eval(case: &SpDdCase, obs: &mut CaseObs, prop: &str) -> Verdict {
    let sp = &case.sp;
    obs.label(format!("dd:{:?}", case.dd));
    obs.label(if sp.least_frequent_first { "order:least-frequent-first" } else { "order:lowest-id" });
    let root = CutG { state: (1u32 << sp.n) - 1, depth: 0, value: 0, ub: isize::MAX, path: vec![] };
    // the cut-set of the root (always compiled relaxed, without incumbent) provides realistic exact sub-problems
    let first = match check_sub(sp, case.dd, &root, case.width, case.inc_below, obs, prop) {
        Ok(cs) => cs,
        Err(e) => return Verdict::Fail(format!("root sub-problem: {e}")),
    };
    let pool = if prop == "C07" {
        match compile_kind(sp, case.dd, &root, CompilationType::Relaxed, case.width, isize::MIN) {
            Ok(o) => o.cutset,
            Err(e) => return Verdict::Fail(format!("root sub-problem: {e}")),
        }
    } else {
        first
    };
    if !pool.is_empty() {
        let pick = &pool[(case.second as usize * pool.len()) >> 8];
        if check_exact(sp, pick).is_ok() {
            obs.label("second-level-sub-problem");
            if pick.depth > pick.path.len() {
                obs.label("sub-problem-with-skipped-variables");
            }
            if let Err(e) = check_sub(sp, case.dd, pick, case.second_width, case.inc_below, obs, prop) {
                return Verdict::Fail(format!("sub-problem {:?} (handed out by the root's cut-set): {e}", pick));
            }
        }
    }
    Verdict::Pass
}

pub fn strategy() -> impl Strategy<Value = SpDdCase> {
    (setpack_strategy(), prop::sample::select(vec![DdKind::Lel, DdKind::Frontier, DdKind::Pooled]), 1usize..=3, prop::option::of(0isize..=2), any::<u8>(), 1usize..=3).prop_map(|(sp, dd, width, inc_below, second, second_width)| SpDdCase { sp, dd, width, inc_below, second, second_width })
}

pub fn run_part(ctx: &mut Ctx, prop: &'static str) {
    let cases = ctx.tier.pick(15_000, 200_000);
    ctx.pt_run("setpack-dynamic-order", cases, strategy(), |c| serde_json::to_value(c).unwrap(), |c, obs| eval(c, obs, prop));
}
pub fn replay(case: &serde_json::Value, prop: &str) -> Verdict {
    match serde_json::from_value::<SpDdCase>(case.clone()) {
        Ok(c) => eval(&c, &mut CaseObs::default(), prop),
        Err(e) => Verdict::HarnessError(format!("cannot decode replay case: {e}")),
    }
}
