//! C06, C07, C08 — diagram-level properties on directly compiled diagrams (DESIGN §7)
use crate::ddlevel::*;
use crate::infra::*;
use crate::model::*;
use crate::props::PropDef;
use crate::run::*;
use ddo::Decision;
use serde_json::Value;

pub fn def_c06() -> PropDef {
    PropDef { id: "C06", run: |c| run(c, "C06"), replay: |p, c, k| replay(p, c, k, "C06"), meta: || meta("C06") }
}
pub fn def_c07() -> PropDef {
    PropDef { id: "C07", run: |c| run(c, "C07"), replay: |p, c, k| replay(p, c, k, "C07"), meta: || meta("C07") }
}
pub fn def_c08() -> PropDef {
    PropDef { id: "C08", run: |c| run(c, "C08"), replay: |p, c, k| replay(p, c, k, "C08"), meta: || meta("C08") }
}

fn meta(prop: &str) -> EvidenceMeta {
    let rule = match prop {
        "C06" => "cases = (generated TableDP instance, reachable exact sub-problem chosen by a generated walk, width, incumbent relative to the sub-problem optimum, diagram type LEL/FRONTIER/Pooled, rough bound / dominance / ranking, 0-3 prior compilations on the same object incl. interrupted ones) compiled in Relaxed mode with fresh cache and dominance store; oracle = h* of the sub-problem + independent replay of the best exact solution. Non-trivial = merge was called at least once in the main compilation; distinct = hash of the serialised case.",
        "C07" => "same case space as C06, compiled in Restricted and Exact mode; oracle = h* of the sub-problem + independent replay of the best solution. Non-trivial = a layer offered more states than max_width (restriction really truncated / exact mode really exceeded the width); distinct = hash of the serialised case.",
        _ => "same case space as C06 (relaxed, both cut-set types and the pooled diagram incl. models with long arcs); for every inexact relaxed diagram the cut-set is drained and each handed-out sub-problem is replayed (i), compared with the compiled root (ii), its bound compared with value + h* (iii), and coverage is decided by brute-force enumeration of every completion of the root sub-problem (iv). Non-trivial = cut-set with >= 2 nodes or nodes at >= 2 depths; distinct = hash of the serialised case.",
    };
    EvidenceMeta {
        rule: rule.into(),
        assumptions: vec![
            "models well-formed by construction (DESIGN §3); oracle h* independent of the library and cross-checked by brute force".into(),
            "'in isolation' = fresh threshold cache and fresh dominance store for the compilation under test".into(),
        ],
    }
}

fn replay_full(t: &TableDP, sol: &[Decision]) -> Result<isize, String> {
    crate::model::replay(t, sol, t.n).map(|(_, v)| v)
}

/// all completions of a sub-problem: (sequence of (layer, atom) visited below the root, total value)
fn completions(t: &TableDP, l: usize, a: usize, acc: isize, cur: &mut Vec<(usize, usize)>, out: &mut Vec<(Vec<(usize, usize)>, isize)>, limit: usize) {
    if out.len() > limit {
        return;
    }
    if l == t.n {
        out.push((cur.clone(), acc));
        return;
    }
    for d in 0..t.nd {
        if let Some((nx, c)) = t.tr(l, a, d) {
            cur.push((l + 1, nx));
            completions(t, l + 1, nx, acc + c, cur, out, limit);
            cur.pop();
        }
    }
}

pub fn eval(case: &DdCase, obs: &mut CaseObs, prop: &str) -> Verdict {
    let t = &case.t;
    let o = Oracle::new(t);
    if let Err(e) = o.self_check(t) {
        return Verdict::HarnessError(e);
    }
    let sub = select_sub(t, &case.main.sub);
    let subopt = sub_opt(&o, &sub);
    let best_lb = incumbent(case.main.inc, subopt);
    let beats = subopt.map_or(false, |s| s > best_lb);
    let out = run_case(case, &o, true, true, &[]);
    // ---- labels -------------------------------------------------------------
    obs.label(format!("dd:{:?}", case.dd));
    obs.label(format!("type:{:?}", case.main.ctype));
    obs.label(format!("width:{}", case.main.width));
    obs.label(format!("inc:{:?}", case.main.inc));
    obs.label(format!("history:{}", case.history.len()));
    obs.label(format!("subdepth:{}", sub.depth.min(4)));
    if subopt.is_none() {
        obs.label("sub:infeasible");
    }
    if t.has_irrelevance() {
        obs.label("model:irrelevance");
    }
    if out.c.merges > 0 {
        obs.label("merged");
    }
    if out.c.not_impacted > 0 {
        obs.label("long-arcs");
    }
    let wide_layer = out.log.iter().any(|(_, e)| matches!(e, crate::wrap::Ev::NextVar { states, .. } if states.len() > case.main.width));
    if wide_layer {
        obs.label("wide-layer");
    }
    if t.join.is_some() {
        obs.label("model:lattice");
    }
    // merged state equal to the state of a node of the same layer that was not merged away ("recycled" node)
    {
        let mut layer: Vec<St> = vec![];
        for (_, e) in out.log.iter() {
            match e {
                crate::wrap::Ev::NextVar { states, .. } => layer = states.clone(),
                crate::wrap::Ev::Merge { inputs, out: m } => {
                    if layer.contains(m) && !inputs.contains(m) {
                        obs.label("recycled-merged-node");
                    }
                }
                _ => {}
            }
        }
    }
    let fail = |m: String| Verdict::Fail(format!("{m} [sub-problem depth={} atom={} value={} subopt={:?} incumbent={} out: exact={} bv={:?} bev={:?} cutset={:?}]", sub.depth, sub.atom, sub.value, subopt, best_lb, out.is_exact, out.best_value, out.best_exact_value, out.cutset.iter().map(|c| (c.state.set, c.depth, c.value, c.ub)).collect::<Vec<_>>()));
    if let Some(p) = &out.panic {
        return fail(format!("panic: {p}"));
    }
    let (c_exact, c_bv) = match out.completion {
        Some(Ok(x)) => x,
        _ => {
            // interrupted by the cutoff: the diagram promises nothing (C12 / C13 still look at its call log)
            obs.label("main-compilation-cut-off");
            return Verdict::Pass;
        }
    };
    if case.main.cut_at.is_some() {
        obs.label("main-compilation-with-cutoff-armed-but-completed");
    }
    if c_exact != out.is_exact || c_bv != out.best_value {
        return fail(format!("Completion {{is_exact: {c_exact}, best_value: {c_bv:?}}} disagrees with the accessors"));
    }
    // history independence (only demanded where the result is fully determined: total rankings)
    if !case.history.is_empty() && matches!(case.rank, RankMode::SetAsc | RankMode::SetDesc) {
        let fresh = run_case(case, &o, false, false, &[]);
        let key = |d: &DdOut| {
            let mut cs: Vec<_> = d.cutset.iter().map(|c| (c.state.clone(), c.depth, c.value, c.ub)).collect();
            cs.sort();
            // exactness-by-best-path, the best exact value and hence the usefulness of the cut-set legitimately
            // depend on how ties between equally long paths are broken (hash map iteration order): only
            // the bound itself is fully determined
            let _ = cs;
            d.best_value
        };
        if fresh.panic.is_none() && key(&fresh) != key(&out) {
            return fail(format!("result depends on the history of the diagram object: fresh object gives exact={} bv={:?} bev={:?} cutset={:?}", fresh.is_exact, fresh.best_value, fresh.best_exact_value, fresh.cutset.iter().map(|c| (c.state.set, c.depth, c.value, c.ub)).collect::<Vec<_>>()));
        }
    }
    let unguarded = matches!(case.rub, RubMode::None) && matches!(case.dom, DomMode::None);
    match case.main.ctype {
        CType::Relaxed => {
            if out.is_exact {
                obs.label("relaxed:exact");
                if out.c.merges > 0 {
                    obs.label("relaxed:exact-by-best-path");
                }
            } else {
                obs.label("relaxed:inexact");
            }
            if prop == "C06" {
                obs.nontrivial = out.c.merges >= 1;
                if beats && out.best_value.map_or(true, |b| b < subopt.unwrap()) {
                    return fail("relaxed bound is below a completion that beats the incumbent".into());
                }
                // the best exact solution is feasible with exactly the best exact value
                match (out.best_exact_value, &out.best_exact_solution) {
                    (Some(ev), Some(sol)) => match replay_full(t, sol) {
                        Ok(v) if v == ev => {}
                        r => return fail(format!("best exact solution {:?} does not replay to the best exact value {ev}: {:?}", sol, r)),
                    },
                    (None, None) => {}
                    _ => return fail("best_exact_value / best_exact_solution presence mismatch".into()),
                }
                if out.is_exact {
                    match out.best_exact_value {
                        Some(ev) => {
                            if subopt.map_or(true, |s| ev > s) {
                                return fail(format!("exact relaxed dd reports best exact value {ev} above the sub-problem optimum"));
                            }
                            if (beats || unguarded) && Some(ev) != subopt {
                                return fail(format!("relaxed dd declares itself exact but its best exact value {ev} is not the sub-problem optimum"));
                            }
                        }
                        None => {
                            if beats || (unguarded && subopt.is_some()) {
                                return fail("relaxed dd declares itself exact without any value although a completion beats the incumbent".into());
                            }
                        }
                    }
                }
            }
            if prop == "C08" {
                if out.is_exact {
                    return Verdict::Pass;
                }
                let cs = &out.cutset;
                let depths: std::collections::BTreeSet<usize> = cs.iter().map(|c| c.depth).collect();
                obs.nontrivial = cs.len() >= 2 || depths.len() >= 2;
                obs.label(format!("cutset:{}", cs.len().min(5)));
                if depths.len() >= 2 {
                    obs.label("cutset:multi-depth");
                }
                for s in cs.iter() {
                    // (i) exact
                    if s.state.set.count_ones() != 1 {
                        return fail(format!("(i) cut-set state {:?} is not an exact state", s.state));
                    }
                    let at = s.state.set.trailing_zeros() as usize;
                    match crate::model::replay(t, &s.path, s.depth) {
                        Ok((a, v)) if a == at && v == s.value && (!t.embed_depth || s.state.depth == s.depth) => {}
                        r => return fail(format!("(i) cut-set node state={:?} depth={} value={} path={:?} is not exact: replay gives {:?}", s.state, s.depth, s.value, s.path, r)),
                    }
                    // (ii) progress
                    if s.depth <= sub.depth {
                        return fail(format!("(ii) cut-set node at depth {} is not strictly deeper than the compiled root (depth {})", s.depth, sub.depth));
                    }
                    // (iii) valid bound (with a dominance rule the local bound of a node may legitimately ignore
                    // completions through dominated descendants: only checked without dominance)
                    if !matches!(case.dom, DomMode::None) {
                        continue;
                    }
                    if let Some(h) = o.h[s.depth][at] {
                        let best = s.value + h;
                        if best > best_lb && s.ub < best {
                            return fail(format!("(iii) cut-set node state={:?} depth={} carries ub {} below its best completion {best} which beats the incumbent", s.state, s.depth, s.ub));
                        }
                    }
                }
                // (iv) coverage
                let mut comps = vec![];
                completions(t, sub.depth, sub.atom, sub.value, &mut vec![], &mut comps, 20_000);
                if comps.len() <= 20_000 {
                    let thr = best_lb.max(out.best_exact_value.unwrap_or(isize::MIN));
                    let is_covered = |states: &Vec<(usize, usize)>| cs.iter().any(|s| states.iter().any(|(dp, at)| *dp == s.depth && s.state.set == 1 << at));
                    if matches!(case.dom, DomMode::None) {
                        for (states, v) in comps.iter() {
                            if *v > thr && !is_covered(states) {
                                return fail(format!("(iv) a completion of value {v} (states {:?}) beats the incumbent and the best exact value but no handed-out sub-problem lies on it", states));
                            }
                        }
                    } else {
                        // with an (admissible) dominance rule active inside the diagram, a completion through a
                        // dominated node need not be covered itself; a completion at least as good must be
                        let best_cov = comps.iter().filter(|(s, _)| is_covered(s)).map(|(_, v)| *v).max();
                        let best_all = comps.iter().map(|(_, v)| *v).filter(|v| *v > thr).max();
                        if let Some(b) = best_all {
                            if best_cov.map_or(true, |c| c < b) {
                                return fail(format!("(iv) the best completion (value {b}) beats the incumbent and the best exact value but the handed-out sub-problems only contain completions up to {:?}", best_cov));
                            }
                        }
                        obs.label("coverage-modulo-dominance");
                    }
                    obs.label("coverage-checked");
                } else {
                    obs.label("coverage-skipped(too many completions)");
                }
            }
        }
        CType::Restricted | CType::Exact => {
            if prop != "C07" {
                return Verdict::Pass;
            }
            obs.nontrivial = wide_layer;
            match (out.best_value, &out.best_solution) {
                (Some(b), Some(sol)) => {
                    if subopt.map_or(true, |s| b > s) {
                        return fail(format!("{:?} dd reports value {b} above the sub-problem optimum", case.main.ctype));
                    }
                    match replay_full(t, sol) {
                        Ok(v) if v == b => {}
                        r => return fail(format!("best solution {:?} does not replay to the reported value {b}: {:?}", sol, r)),
                    }
                }
                (None, None) => {}
                _ => return fail("best_value / best_solution presence mismatch".into()),
            }
            if case.main.ctype == CType::Restricted {
                if out.is_exact {
                    obs.label("restricted:exact");
                } else {
                    obs.label("restricted:inexact");
                }
                if out.is_exact && (beats || (unguarded && subopt.is_some())) && out.best_value != subopt {
                    return fail("restricted dd declares itself exact but its value is not the optimum".into());
                }
            } else {
                if (beats || (unguarded && subopt.is_some())) && out.best_value != subopt {
                    return fail("exact-mode dd does not yield the sub-problem optimum".into());
                }
            }
        }
    }
    Verdict::Pass
}

fn run(ctx: &mut Ctx, prop: &'static str) {
    let types = match prop {
        "C07" => vec![CType::Restricted, CType::Exact],
        _ => vec![CType::Relaxed],
    };
    let dds = vec![DdKind::Lel, DdKind::Frontier, DdKind::Pooled];
    let cases = ctx.tier.pick(80_000, 800_000);
    // C07: the compilation under test may be interrupted at a generated poll; whenever it nevertheless
    // returns Ok, everything it reports must hold (added after seeded change C07-S1)
    let strat = dd_case_strategy_cut(GenParams::default_small(), types.clone(), dds.clone(), prop == "C07");
    ctx.pt_run("dd-random", cases, strat, |c| serde_json::to_value(c).unwrap(), |c, obs| eval(c, obs, prop));
    // long-arc models (depth free, irrelevance) with the pooled dd get their own share
    let mut p = GenParams::default_small();
    p.embed = Some(false);
    let cases = ctx.tier.pick(30_000, 300_000);
    let strat = dd_case_strategy(p, types, vec![DdKind::Pooled]);
    ctx.pt_run("dd-random-pooled-depthfree", cases, strat, |c| serde_json::to_value(c).unwrap(), |c, obs| eval(c, obs, prop));
    // set packing: dynamic variable order + long arcs, sub-problems taken from real cut-sets
    crate::props::dd_fam::run_part(ctx, prop);
}

fn replay(part: &str, case: &Value, _known: &KnownFindings, prop: &str) -> Verdict {
    if part == "setpack-dynamic-order" || case.get("sp").is_some() {
        return crate::props::dd_fam::replay(case, prop);
    }
    match serde_json::from_value::<DdCase>(case.clone()) {
        Ok(c) => {
            c.t.validate();
            eval(&c, &mut CaseObs::default(), prop)
        }
        Err(e) => Verdict::HarnessError(format!("cannot decode replay case: {e}")),
    }
}
