//! Family-level cases for C01 (all families) and C15 (long arcs: pooled vs plain diagrams)
use crate::families::*;
use crate::infra::*;
use crate::model::*;
use crate::props::PropDef;
use crate::run::*;
use serde_json::Value;

pub fn eval_family(case: &FamCase, obs: &mut CaseObs, prop: &str) -> Verdict {
    let r = run_family(case, &RunOpts::default());
    if let Err(e) = &r.oracle_check {
        return Verdict::HarnessError(e.clone());
    }
    obs.label(format!("family:{}", family_name(&case.fam)));
    obs.label(format!("dd:{:?}", case.dd));
    obs.label(format!("cache:{:?}", case.cache));
    obs.label(if case.threads.is_some() { "solver:parallel(real threads)" } else { "solver:sequential" });
    if r.out.c.not_impacted > 0 {
        obs.label("long-arcs");
    }
    if r.out.c.merges > 0 {
        obs.label("merge-called");
    }
    obs.nontrivial = r.out.explored >= 2 || r.out.c.merges >= 1;
    let res = match prop {
        "C02" => r.solution_check.clone(),
        _ => check_exact_value(r.opt, &r.out).and_then(|_| r.solution_check.clone()),
    };
    match res {
        Ok(()) => Verdict::Pass,
        Err(e) => Verdict::Fail(format!("{e} [{:?}]", r.out)),
    }
}

/// C05 on the (large) families: the uninterrupted run gives the number K of cutoff polls; the run is then
/// repeated with the cutoff firing at a sample of poll indices (the generated fractions of K, plus 1 and K).
#[derive(Clone, Debug, serde::Serialize, serde::Deserialize)]
pub struct FamCutCase {
    pub case: FamCase,
    pub picks: Vec<u16>,
}
pub fn eval_family_cutoffs(c: &FamCutCase, obs: &mut CaseObs) -> Verdict {
    let full = run_family(&c.case, &RunOpts::default());
    if let Err(e) = &full.oracle_check {
        return Verdict::HarnessError(e.clone());
    }
    if full.out.panic.is_some() || full.out.exhausted {
        return Verdict::Pass; // C01 / C03 business
    }
    let k = full.out.polls.max(1);
    obs.label(format!("family:{}", family_name(&c.case.fam)));
    obs.label(if c.case.threads.is_some() { "solver:parallel(real threads)" } else { "solver:sequential" });
    let opt = full.opt.unwrap_or(isize::MIN);
    let mut ks: Vec<usize> = c.picks.iter().map(|p| 1 + (*p as usize * k) / 65_536).collect();
    ks.push(1);
    ks.push(k);
    ks.sort();
    ks.dedup();
    obs.evals = ks.len() as u64;
    for fire in ks {
        let r = run_family(&c.case, &RunOpts { fire_at: Some(fire), ..Default::default() });
        let out = &r.out;
        if let Some(p) = &out.panic {
            return Verdict::Fail(format!("cutoff at poll {fire} of {k}: panic {p}"));
        }
        if out.exhausted {
            return Verdict::Fail(format!("cutoff at poll {fire} of {k}: the run does not terminate [{:?}]", out));
        }
        if out.fired && out.lb > isize::MIN && out.ub < isize::MAX && out.lb < out.ub {
            obs.nontrivial = true;
        }
        if !(out.lb <= opt && opt <= out.ub) {
            return Verdict::Fail(format!("cutoff at poll {fire} of {k}: bounds [{}, {}] do not contain the true optimum {:?} [{:?}]", out.lb, out.ub, full.opt, out));
        }
        if let Err(e) = &r.solution_check {
            return Verdict::Fail(format!("cutoff at poll {fire} of {k}: {e} [{:?}]", out));
        }
        if let Some(comp) = &out.completion {
            if comp.is_exact && comp.best_value != full.opt {
                return Verdict::Fail(format!("cutoff at poll {fire} of {k}: is_exact but value {:?} is not the optimum {:?}", comp.best_value, full.opt));
            }
        }
    }
    Verdict::Pass
}

/// C15: the same model solved with the pooled diagram and with both plain diagrams
pub fn eval_c15_family(case: &FamCase, obs: &mut CaseObs) -> Verdict {
    let mut results = vec![];
    for dd in [DdKind::Pooled, DdKind::Lel, DdKind::Frontier] {
        let mut c = case.clone();
        c.dd = dd;
        let r = run_family(&c, &RunOpts::default());
        if let Err(e) = &r.oracle_check {
            return Verdict::HarnessError(e.clone());
        }
        results.push((dd, r));
    }
    obs.label(format!("family:{}", family_name(&case.fam)));
    obs.label(format!("cache:{:?}", case.cache));
    obs.label(if case.threads.is_some() { "solver:parallel(real threads)" } else { "solver:sequential" });
    let pooled = &results[0].1;
    obs.nontrivial = pooled.out.c.not_impacted > 0;
    if pooled.out.c.not_impacted > 0 {
        obs.label("skipping-happened");
    }
    if pooled.out.c.merges > 0 {
        obs.label("pooled-merged");
    }
    for (dd, r) in results.iter() {
        if let Err(e) = check_exact_value(r.opt, &r.out).and_then(|_| r.solution_check.clone()) {
            return Verdict::Fail(format!("{:?} diagram: {e} [{:?}]", dd, r.out));
        }
    }
    Verdict::Pass
}

/// C15 on depth-free table models with a generated irrelevance pattern
pub fn eval_c15_table(case: &SolveCase, threads: Option<usize>, obs: &mut CaseObs) -> Verdict {
    let t = &case.t;
    let o = Oracle::new(t);
    if let Err(e) = o.self_check(t) {
        return Verdict::HarnessError(e);
    }
    obs.label("family:table-irrelevance");
    obs.label(format!("cache:{:?}", case.cfg.cache));
    obs.label(if threads.is_some() { "solver:parallel(real threads)" } else { "solver:sequential" });
    for dd in [DdKind::Pooled, DdKind::Lel, DdKind::Frontier] {
        let mut cfg = case.cfg.clone();
        cfg.dd = dd;
        let out = run_table(t, &o, &cfg, &RunOpts { threads, record: dd == DdKind::Pooled, ..Default::default() });
        if dd == DdKind::Pooled {
            obs.nontrivial = out.c.not_impacted > 0;
            if out.c.not_impacted > 0 {
                obs.label("skipping-happened");
            }
            // a state skipped >= 2 consecutive layers
            let mut run_len: std::collections::HashMap<St, usize> = Default::default();
            let mut multi = false;
            for (_, e) in out.log.iter() {
                match e {
                    crate::wrap::Ev::Impacted { state, ret: false, .. } => {
                        let c = run_len.entry(state.clone()).or_insert(0);
                        *c += 1;
                        if *c >= 2 {
                            multi = true;
                        }
                    }
                    crate::wrap::Ev::Impacted { state, ret: true, .. } => {
                        run_len.remove(state);
                    }
                    _ => {}
                }
            }
            if multi {
                obs.label("state-skipped>=2-layers");
            }
            if out.c.merges > 0 && out.c.not_impacted > 0 {
                obs.label("pooled-merged-with-lingering-nodes");
            }
        }
        if let Err(e) = check_exact_run(&o, &out).and_then(|_| check_solution(t, &out, true, true)) {
            return Verdict::Fail(format!("{:?} diagram: {e} [{:?}]", dd, RunOutG { log: vec![], ..out }));
        }
    }
    Verdict::Pass
}

#[derive(Clone, Debug, serde::Serialize, serde::Deserialize)]
pub struct C15TableCase {
    pub solve: SolveCase,
    pub threads: Option<usize>,
}

pub fn def_c15() -> PropDef {
    use proptest::prelude::*;
    PropDef {
        id: "C15",
        run: |ctx| {
            let cases = ctx.tier.pick(25_000, 300_000);
            let p = GenParams { n: (3, 7), b: (2, 4), nd: (1, 3), embed: Some(false), allow_irrelevance: true, allow_potential: false };
            let strat = (solve_case_strategy(p, ConfigGen { max_width: 3, ..Default::default() }), prop_oneof![4 => Just(None), 1 => (1usize..=3).prop_map(Some)]).prop_map(|(solve, threads)| C15TableCase { solve, threads });
            ctx.pt_run("table-irrelevance", cases, strat, |c| serde_json::to_value(c).unwrap(), |c, obs| eval_c15_table(&c.solve, c.threads, obs));
            let cases = ctx.tier.pick(20_000, 200_000);
            let strat = fam_case_strategy(vec![1, 2], vec![DdKind::Pooled], true);
            ctx.pt_run("setpack-and-lcs", cases, strat, |c| serde_json::to_value(c).unwrap(), eval_c15_family);
            // larger instances of the same two families: hundreds of sub-problems, states lingering over many layers
            let cases = ctx.tier.pick(1_200, 15_000);
            let strat = fam_case_strategy(vec![11, 12], vec![DdKind::Pooled], true);
            ctx.pt_run("setpack-and-lcs-large", cases, strat, |c| serde_json::to_value(c).unwrap(), eval_c15_family);
        },
        replay: |part, case, _| {
            if part == "table-irrelevance" || case.get("solve").is_some() {
                match serde_json::from_value::<C15TableCase>(case.clone()) {
                    Ok(c) => eval_c15_table(&c.solve, c.threads, &mut CaseObs::default()),
                    Err(e) => Verdict::HarnessError(format!("cannot decode replay case: {e}")),
                }
            } else {
                match serde_json::from_value::<FamCase>(case.clone()) {
                    Ok(c) => eval_c15_family(&c, &mut CaseObs::default()),
                    Err(e) => Verdict::HarnessError(format!("cannot decode replay case: {e}")),
                }
            }
        },
        meta: || EvidenceMeta {
            rule: "cases = model with irrelevant (variable, state) pairs - depth-free table models with a generated irrelevance pattern (the non-impacted pairs have the neutral default decision: identity transition, cost 0), set-packing with dynamic variable order, common-subsequence model with jumps - x width 1..3 x cache on/off x fringe x sequential / parallel (1-3 real threads); the same case is solved with Pooled, Mdd<LEL> and Mdd<FRONTIER>: all three must terminate within the proven poll budget, be exact, equal the independent optimum (h* / brute force), and report a feasible (default-completed) solution. Non-trivial = is_impacted_by answered false at least once during the pooled run (skipping really happened); distinct = hash of the serialised case. Labels measure 'state skipped >= 2 layers' and 'merge with lingering nodes'.".into(),
            assumptions: vec!["models declare irrelevance consistently: the default decision is an identity transition of cost 0 (what the is_impacted_by documentation implies)".into()],
        },
    }
}

pub fn replay_family(case: &Value, prop: &str) -> Verdict {
    match serde_json::from_value::<FamCase>(case.clone()) {
        Ok(c) => eval_family(&c, &mut CaseObs::default(), prop),
        Err(e) => Verdict::HarnessError(format!("cannot decode replay case: {e}")),
    }
}
