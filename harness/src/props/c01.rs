//! C01 — sequential branch-and-bound returns the true optimum (DESIGN §7/C01)
use crate::infra::*;
use crate::model::*;
use crate::props::PropDef;
use crate::run::*;
use serde_json::{json, Value};

pub fn def() -> PropDef {
    PropDef { id: "C01", run, replay, meta }
}

fn meta() -> EvidenceMeta {
    EvidenceMeta {
        rule: "cases = (generated model instance, generated solver configuration) solved by SequentialSolver::maximize() under a counting watchdog cutoff and compared with the exact optimum h* computed on the atom tables (backward induction, cross-checked by brute-force enumeration). Parts: table-random (proptest, shrinking), table-exhaustive (every 3-variable/2-atom/2-value transition table x 3 cost tables, strided in the quick tier), knapsack, setpack, minilcs. Non-trivial = the run explored >= 2 sub-problems or called merge >= 1 time (restriction/relaxation really triggered); distinct = hash of the serialised (instance, configuration).".into(),
        assumptions: vec![
            "generated models are well-formed by construction (DESIGN §3): powerset relaxation, admissible rough bounds and dominance rules derived from h*".into(),
            "the oracle h* is independent of the library (atoms only) and is cross-checked against brute force on every instance with <= 20000 solutions".into(),
            "non-termination is detected by a proven upper bound on the number of cutoff polls, not by a clock".into(),
        ],
    }
}

/// is this (failing) run an instance of known finding F2b ?
pub fn is_f2b(case: &SolveCase, out: &RunOut) -> bool {
    case.cfg.dd == DdKind::Pooled && case.t.has_irrelevance() && out.self_enqueue
}

pub fn eval(case: &SolveCase, obs: &mut CaseObs, known: &KnownFindings, prop: &str) -> Verdict {
    let t = &case.t;
    let o = Oracle::new(t);
    if let Err(e) = o.self_check(t) {
        return Verdict::HarnessError(e);
    }
    let out = run_table(t, &o, &case.cfg, &RunOpts::default());
    case.cfg.labels(obs);
    obs.label(format!("n:{}", t.n));
    obs.label(if t.embed_depth { "state:depth-embedded" } else { "state:depth-free" });
    if t.has_irrelevance() {
        obs.label("model:irrelevance");
    }
    if t.has_potential() {
        obs.label("model:potential");
    }
    if t.join.is_some() {
        obs.label("model:lattice");
    }
    match o.opt {
        None => obs.label("opt:infeasible"),
        Some(v) if v < 0 => obs.label("opt:negative"),
        Some(0) => obs.label("opt:zero"),
        _ => obs.label("opt:positive"),
    }
    obs.label(format!(
        "explored:{}",
        match out.explored {
            0 => "0",
            1 => "1",
            2..=4 => "2-4",
            5..=19 => "5-19",
            _ => "20+",
        }
    ));
    if out.c.merges > 0 {
        obs.label("merge-called");
    }
    if out.c.coalesced > 0 {
        obs.label("fringe-coalesced");
    }
    if out.c.not_impacted > 0 {
        obs.label("long-arcs");
    }
    obs.nontrivial = out.explored >= 2 || out.c.merges >= 1;
    let res = match prop {
        "C02" => check_solution(t, &out, true, true),
        _ => check_exact_run(&o, &out),
    };
    match res {
        Ok(()) => Verdict::Pass,
        Err(e) => {
            if is_f2b(case, &out) && known.is_known(prop, "F2b") {
                return Verdict::Known("F2b".into());
            }
            Verdict::Fail(format!("{e}  [{:?}]", out))
        }
    }
}

pub fn config_pool(seed: u64, count: usize, max_width: usize) -> Vec<Config> {
    sample_values(&config_strategy(ConfigGen { max_width, ..Default::default() }), seed, count)
}

pub fn run_parts(ctx: &mut Ctx, prop: &'static str) {
    let known = ctx.known.clone();
    // ---- part 1: random table models -------------------------------------
    let cases = ctx.tier.pick(120_000, 1_500_000);
    let strat = solve_case_strategy(GenParams::default_small(), ConfigGen { max_width: 4, ..Default::default() });
    ctx.pt_run("table-random", cases, strat, |c| serde_json::to_value(c).unwrap(), |c, obs| eval(c, obs, &known, prop));
    // ---- part 2: bounded exhaustive sub-space (strided in the quick tier) --
    let stride: u32 = ctx.tier.pick(16, 1);
    let pool = config_pool(ctx.seed ^ 0xC01, 64, 2);
    let mut k: u64 = ctx.seed;
    let mut idx = (ctx.shard as u32) * stride + (ctx.seed % stride as u64) as u32;
    let step = ctx.nshards as u32 * stride;
    while idx < EXHAUSTIVE_SPACE {
        for ct in 0..3 {
            let t = exhaustive_instance(idx, ct);
            k = k.wrapping_mul(6364136223846793005).wrapping_add(1442695040888963407);
            let cfg = pool[(k >> 33) as usize % pool.len()].clone();
            let case = SolveCase { t, cfg };
            let mut obs = CaseObs::default();
            let v = eval(&case, &mut obs, &known, prop);
            ctx.account("table-exhaustive", obs, || serde_json::to_value(&case).unwrap(), v);
        }
        idx += step;
    }
    // ---- part 3: knapsack, set packing (dynamic order), common subsequence (long arcs) -------
    let cases = ctx.tier.pick(40_000, 500_000);
    let strat = crate::families::fam_case_strategy(vec![0, 1, 2], vec![DdKind::Lel, DdKind::Frontier, DdKind::Pooled], false);
    ctx.pt_run("families", cases, strat, |c| serde_json::to_value(c).unwrap(), |c, obs| crate::props::fam::eval_family(c, obs, prop));
    // ---- part 4: knapsacks with 10..=16 items: long searches, dozens of open nodes, deep re-convergence ----
    let cases = ctx.tier.pick(2_500, 25_000);
    let strat = {
        use crate::families::*;
        use proptest::strategy::Strategy;
        (knap_large_strategy(), config_strategy(ConfigGen { max_width: 3, rub_none_only: true, dom: Some(false), ..Default::default() })).prop_map(|(k, cfg)| FamCase { fam: Family::Knap(k), dd: cfg.dd, cache: cfg.cache, fringe: cfg.fringe, width: cfg.width, threads: None })
    };
    ctx.pt_run("knapsack-large", cases, strat, |c| serde_json::to_value(c).unwrap(), |c, obs| crate::props::fam::eval_family(c, obs, prop));
    ctx.stats.exhaustive.insert("table-exhaustive: all 3^12 transition tables (n=3,B=2,nd=2) x 3 cost tables, one rotating configuration each".into(), stride == 1);
}

fn run(ctx: &mut Ctx) {
    run_parts(ctx, "C01");
}

pub fn replay_with(part: &str, case: &Value, known: &KnownFindings, prop: &str) -> Verdict {
    if part == "families" || case.get("fam").is_some() {
        return crate::props::fam::replay_family(case, prop);
    }
    match serde_json::from_value::<SolveCase>(case.clone()) {
        Ok(c) => {
            c.t.validate();
            eval(&c, &mut CaseObs::default(), known, prop)
        }
        Err(e) => Verdict::HarnessError(format!("cannot decode replay case: {e} ({})", json!(case))),
    }
}
fn replay(part: &str, case: &Value, known: &KnownFindings) -> Verdict {
    replay_with(part, case, known, "C01")
}
