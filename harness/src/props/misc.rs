//! C02, C09, C10 (solver level), C11 (solver level), C12, C13, C14: properties decided on solver runs
use crate::ddlevel::*;
use crate::infra::*;
use crate::model::*;
use crate::monitor::*;
use crate::props::c05::eval_cutoffs;
use crate::props::par;
use crate::props::PropDef;
use crate::run::*;
use crate::wrap::{tkey, Ev};
use ddo::*;
use proptest::prelude::*;
use serde::{Deserialize, Serialize};
use serde_json::Value;
use std::collections::BTreeMap;

fn decode<T: serde::de::DeserializeOwned>(case: &Value) -> Result<T, Verdict> {
    serde_json::from_value::<T>(case.clone()).map_err(|e| Verdict::HarnessError(format!("cannot decode replay case: {e}")))
}

// =============================================================================================
// C02
// =============================================================================================
pub fn def_c02() -> PropDef {
    PropDef {
        id: "C02",
        run: |ctx| {
            // (1) uninterrupted sequential runs (instances/configurations of C01)
            let known = ctx.known.clone();
            let cases = ctx.tier.pick(60_000, 600_000);
            let strat = solve_case_strategy(GenParams::default_small(), ConfigGen { max_width: 4, ..Default::default() });
            ctx.pt_run("seq-uninterrupted", cases, strat, |c| serde_json::to_value(c).unwrap(), |c, obs| crate::props::c01::eval(c, obs, &known, "C02"));
            // (2) every cutoff point of the sequential solver
            let cases = ctx.tier.pick(1_500, 10_000);
            let max_k = ctx.tier.pick(300, 3_000);
            let strat = solve_case_strategy(GenParams::default_small(), ConfigGen { max_width: 3, ..Default::default() });
            ctx.pt_run("seq-every-poll", cases, strat, |c| serde_json::to_value(c).unwrap(), |c, obs| eval_cutoffs(c, obs, "C02", max_k));
            // (3) parallel solver under owned schedules, with and without cutoff
            let (rc, sb, bound, mr) = match ctx.tier {
                Tier::Quick => (3_000, 6, 1, 800),
                Tier::Thorough => (20_000, 30, 2, 40_000),
            };
            par::run_prop(ctx, "C02", par::ParGen { cutoff: true, ..Default::default() }, rc, sb, bound, mr);
            // (4) real threads: interleavings finer than the scheduler's yield points (e.g. two lock acquisitions
            // inside one hooked function, seeded change C02-S2) are only reachable this way
            par::stress(ctx, "C02");
            // (5) the other model families (knapsack, set packing with dynamic order, common subsequence with long
            // arcs), small and large, sequential and with 1-3 real threads: each has its own replay function
            if ctx.stats.violations.is_empty() {
                let cases = ctx.tier.pick(2_000, 30_000);
                let strat = crate::families::fam_case_strategy(vec![0, 1, 2, 10, 11, 12], vec![DdKind::Lel, DdKind::Frontier, DdKind::Pooled], true);
                ctx.pt_run("families", cases, strat, |c| serde_json::to_value(c).unwrap(), |c, obs| crate::props::fam::eval_family(c, obs, "C02"));
            }
        },
        replay: |part, case, known| {
            if part == "families" {
                crate::props::fam::replay_family(case, "C02")
            } else if part.starts_with("stress") {
                par::stress_replay(case, "C02")
            } else if part.starts_with("par") {
                par::replay(part, case, known, "C02")
            } else if part == "seq-every-poll" {
                match decode::<SolveCase>(case) {
                    Ok(c) => eval_cutoffs(&c, &mut CaseObs::default(), "C02", usize::MAX),
                    Err(v) => v,
                }
            } else {
                crate::props::c01::replay_with(part, case, known, "C02")
            }
        },
        meta: || EvidenceMeta {
            rule: "three parts, same oracle (independent replay of the reported decisions through the atom tables: <= 1 decision per variable, every decision in the domain of the state reached, sum of costs = reported value = best_lower_bound() = Completion.best_value; solution present iff value present; after an uninterrupted run best_upper_bound() = value): (1) uninterrupted sequential runs over (instance, configuration); (2) the sequential solver cut at EVERY poll index; (3) the parallel solver under random/PCT/systematic schedules with and without cutoff. Non-trivial = (1) run explored >= 2 sub-problems or merged, (2) interrupted run that reports a solution, (3) run reporting a solution in which >= 2 workers interleaved or the cutoff fired; distinct = hash of the serialised case (+ k).".into(),
            assumptions: vec!["solutions supplied by the caller (warm start) are exempt, as the property says; they are exercised in C14".into()],
        },
    }
}

// =============================================================================================
// C09 - the threshold cache never changes the answer
// =============================================================================================
fn reconvergent() -> GenParams {
    GenParams { n: (4, 7), b: (2, 3), nd: (2, 3), embed: None, allow_irrelevance: true, allow_potential: true }
}
/// in-vivo reference model of the cache traffic: every get must return the max of the updates since the last clear
fn check_cache_traffic(log: &[(u32, Ev<St>)]) -> Result<usize, String> {
    let mut reference: BTreeMap<(usize, St), Threshold> = BTreeMap::new();
    let mut gets = 0;
    for (_, e) in log {
        match e {
            Ev::CacheUpdate { state, depth, value, explored } => {
                let th = Threshold { value: *value, explored: *explored };
                let e = reference.entry((*depth, state.clone())).or_insert(th);
                if tkey(&th) > tkey(e) {
                    *e = th;
                }
            }
            Ev::CacheGet { state, depth, ret } => {
                gets += 1;
                let expect = reference.get(&(*depth, state.clone())).copied();
                if *ret != expect {
                    return Err(format!("get_threshold({:?}, depth {depth}) returned {:?} but the thresholds recorded since the last clear have maximum {:?}", state, ret, expect));
                }
            }
            Ev::CacheClearLayer { depth } => {
                let d = *depth;
                reference.retain(|k, _| k.0 != d);
            }
            Ev::CacheClear => reference.clear(),
            _ => {}
        }
    }
    Ok(gets)
}
fn eval_c09(case: &SolveCase, obs: &mut CaseObs) -> Verdict {
    let t = &case.t;
    let o = Oracle::new(t);
    if let Err(e) = o.self_check(t) {
        return Verdict::HarnessError(e);
    }
    let mut with = case.cfg.clone();
    with.cache = CacheKind::Simple;
    let mut without = case.cfg.clone();
    without.cache = CacheKind::Empty;
    let a = run_table(t, &o, &with, &RunOpts { record: true, ..Default::default() });
    let b = run_table(t, &o, &without, &RunOpts::default());
    case.cfg.labels(obs);
    obs.nontrivial = a.c.domain_calls < b.c.domain_calls;
    if obs.nontrivial {
        obs.label("cache-pruned-expansions");
    }
    if a.c.cache_some > 0 {
        obs.label("threshold-found");
    }
    for (name, out) in [("caching", &a), ("non-caching", &b)] {
        if let Err(e) = check_exact_run(&o, out).and_then(|_| check_solution(t, out, true, true)) {
            return Verdict::Fail(format!("{name} solver: {e} [{:?}]", out));
        }
    }
    if a.best_value != b.best_value {
        return Verdict::Fail(format!("caching solver returns {:?}, non-caching solver returns {:?}", a.best_value, b.best_value));
    }
    if let Err(e) = check_cache_traffic(&a.log) {
        return Verdict::Fail(e);
    }
    Verdict::Pass
}
pub fn def_c09() -> PropDef {
    PropDef {
        id: "C09",
        run: |ctx| {
            let cases = ctx.tier.pick(40_000, 400_000);
            let strat = solve_case_strategy(reconvergent(), ConfigGen { max_width: 3, ..Default::default() });
            ctx.pt_run("seq-cache-vs-nocache", cases, strat, |c| serde_json::to_value(c).unwrap(), eval_c09);
            let (rc, sb, bound, mr) = match ctx.tier {
                Tier::Quick => (3_000, 6, 1, 800),
                Tier::Thorough => (25_000, 30, 2, 40_000),
            };
            par::run_prop(ctx, "C09", par::ParGen { cache_simple_only: true, ..Default::default() }, rc, sb, bound, mr);
            // larger searches (10..=16 item knapsacks, set packing with 11..=15 items) with the cache on, sequential
            // and with 2-4 real worker threads: thousands of threshold reads and writes per run
            if ctx.stats.violations.is_empty() {
                use crate::families::*;
                let cases = ctx.tier.pick(2_000, 20_000);
                let strat = (fam_case_strategy(vec![10, 11], vec![DdKind::Lel, DdKind::Frontier, DdKind::Pooled], false), prop_oneof![1 => Just(None), 2 => (2usize..=4).prop_map(Some)]).prop_map(|(mut c, threads)| {
                    c.cache = CacheKind::Simple;
                    c.threads = threads;
                    c
                });
                ctx.pt_run("large-families-cache-on", cases, strat, |c| serde_json::to_value(c).unwrap(), |c, obs| crate::props::fam::eval_family(c, obs, "C09"));
            }
        },
        replay: |part, case, known| {
            if part == "large-families-cache-on" {
                crate::props::fam::replay_family(case, "C09")
            } else if part.starts_with("par") {
                par::replay(part, case, known, "C09")
            } else {
                match decode::<SolveCase>(case) {
                    Ok(c) => eval_c09(&c, &mut CaseObs::default()),
                    Err(v) => v,
                }
            }
        },
        meta: || EvidenceMeta {
            rule: "sequential: cases = (re-convergent instance: 2-3 atoms, 4-7 layers; configuration incl. the tie-shuffling fringe that generates processing orders the shipped fringes never produce); the same case is solved with SimpleCache and with EmptyCache and both are compared with h* (value, exactness, solution replay); the recorded cache traffic of the caching run is checked against a reference map (every get returns the max of the thresholds recorded since the last clear). parallel: caching solver under owned schedules with yields before every threshold read/write (fine-grained), compared with h*. Non-trivial = the caching run expanded strictly fewer states than the non-caching one (sequential) / a threshold was found while >= 2 workers processed nodes (parallel); distinct = hash of the serialised case.".into(),
            assumptions: vec!["models well-formed by construction; independent oracle".into()],
        },
    }
}

// =============================================================================================
// C10 (solver level) and C11 (solver level) live here; checker/fringe level parts in ds.rs
// =============================================================================================
pub fn eval_c10_solver(case: &SolveCase, obs: &mut CaseObs) -> Verdict {
    let t = &case.t;
    let o = Oracle::new(t);
    if let Err(e) = o.self_check(t) {
        return Verdict::HarnessError(e);
    }
    let mut nodom = case.cfg.clone();
    nodom.dom = DomMode::None;
    let a = run_table(t, &o, &case.cfg, &RunOpts::default());
    let b = run_table(t, &o, &nodom, &RunOpts::default());
    case.cfg.labels(obs);
    obs.nontrivial = a.c.dom_pruned >= 1;
    if a.c.dom_pruned >= 1 {
        obs.label("dominance-pruned");
    }
    for (name, out) in [("with dominance", &a), ("without dominance", &b)] {
        if let Err(e) = check_exact_run(&o, out) {
            return Verdict::Fail(format!("{name}: {e} [{:?}]", out));
        }
    }
    Verdict::Pass
}
pub fn eval_c11_solver(case: &SolveCase, obs: &mut CaseObs) -> Verdict {
    let t = &case.t;
    let o = Oracle::new(t);
    if let Err(e) = o.self_check(t) {
        return Verdict::HarnessError(e);
    }
    let mut nodup = case.cfg.clone();
    nodup.fringe = FringeKind::NoDup;
    let mut simple = case.cfg.clone();
    simple.fringe = FringeKind::Simple;
    let a = run_table(t, &o, &nodup, &RunOpts::default());
    let b = run_table(t, &o, &simple, &RunOpts::default());
    case.cfg.labels(obs);
    obs.nontrivial = a.c.coalesced >= 1;
    if a.c.coalesced >= 1 {
        obs.label("fringe-coalesced");
    }
    for (name, out) in [("duplicate-free fringe", &a), ("simple fringe", &b)] {
        if let Err(e) = check_exact_run(&o, out).and_then(|_| check_solution(t, out, true, true)) {
            return Verdict::Fail(format!("{name}: {e} [{:?}]", out));
        }
    }
    Verdict::Pass
}

// =============================================================================================
// C12 / C13 - callback protocol and width
// =============================================================================================
#[derive(Clone, Debug, Serialize, Deserialize)]
pub struct ProtoCase {
    pub solve: SolveCase,
    /// None = sequential solver; Some(k) = parallel solver with k real threads
    pub threads: Option<usize>,
    /// the cutoff fires at this poll (interrupted compilations are monitored like the others)
    #[serde(default)]
    pub fire_at: Option<usize>,
}
fn eval_proto_solver(case: &ProtoCase, obs: &mut CaseObs, check_width: bool) -> Verdict {
    let t = &case.solve.t;
    let o = Oracle::new(t);
    let out = run_table(t, &o, &case.solve.cfg, &RunOpts { record: true, threads: case.threads, fire_at: case.fire_at, ..Default::default() });
    if case.fire_at.is_some() {
        obs.label(if out.fired { "cutoff-fired" } else { "cutoff-armed-not-reached" });
    }
    if out.panic.is_some() || out.exhausted {
        return Verdict::Pass; // C01 / C03 business
    }
    case.solve.cfg.labels(obs);
    obs.label(if case.threads.is_some() { "solver:parallel" } else { "solver:sequential" });
    let pooled = case.solve.cfg.dd == DdKind::Pooled;
    let mut total = ProtoStats::default();
    let mut nseg = 0;
    for stream in thread_streams(&out.log) {
        for seg in split_solver_stream(&stream, pooled) {
            nseg += 1;
            match check_segment(t, &seg, check_width) {
                Ok(st) => {
                    total.interesting_relaxes += st.interesting_relaxes;
                    total.wide_layers += st.wide_layers;
                    total.relaxes += st.relaxes;
                    total.merges += st.merges;
                    total.layers += st.layers;
                }
                Err(e) => return Verdict::Fail(format!("{e} [compilation: {:?} root depth {} width {}]", seg.ctype, seg.root_depth, seg.width)),
            }
        }
    }
    obs.evals = nseg.max(1) as u64;
    if total.merges > 0 {
        obs.label("merged");
    }
    obs.nontrivial = if check_width { total.wide_layers >= 1 } else { total.interesting_relaxes >= 1 };
    Verdict::Pass
}
fn eval_proto_dd(case: &DdCase, obs: &mut CaseObs, check_width: bool) -> Verdict {
    let t = &case.t;
    let o = Oracle::new(t);
    let out = run_case(case, &o, true, true, &[]);
    if out.panic.is_some() {
        return Verdict::Pass; // C06/C07 business
    }
    let sub = select_sub(t, &case.main.sub);
    obs.label(format!("dd:{:?}", case.dd));
    obs.label(format!("type:{:?}", case.main.ctype));
    let evs: Vec<Ev<St>> = out.log.iter().map(|(_, e)| e.clone()).collect();
    let seg = Seg { root_depth: sub.depth, ctype: Some(case.main.ctype), width: case.main.width, pooled: case.dd == DdKind::Pooled, evs };
    match check_segment(t, &seg, check_width) {
        Ok(st) => {
            obs.nontrivial = if check_width { st.wide_layers >= 1 } else { st.interesting_relaxes >= 1 };
            if st.merges > 0 {
                obs.label("merged");
            }
            Verdict::Pass
        }
        Err(e) => Verdict::Fail(format!("{e} [direct {:?} compilation, root depth {} width {}]", case.main.ctype, sub.depth, case.main.width)),
    }
}
fn proto_strategy(p: GenParams, max_width: usize) -> impl Strategy<Value = ProtoCase> {
    (solve_case_strategy(p, ConfigGen { max_width, ..Default::default() }), prop_oneof![4 => Just(None), 1 => (1usize..=3).prop_map(Some)], prop_oneof![2 => Just(None), 1 => (1usize..80).prop_map(Some)]).prop_map(|(solve, threads, fire_at)| ProtoCase { solve, threads, fire_at })
}
fn run_proto(ctx: &mut Ctx, check_width: bool) {
    let mut p = GenParams::default_small();
    if check_width {
        p.allow_irrelevance = false;
    }
    let cases = ctx.tier.pick(20_000, 200_000);
    ctx.pt_run("solver-runs", cases, proto_strategy(p.clone(), 5), |c| serde_json::to_value(c).unwrap(), |c, obs| eval_proto_solver(c, obs, check_width));
    let cases = ctx.tier.pick(40_000, 400_000);
    let types = vec![CType::Exact, CType::Restricted, CType::Relaxed];
    ctx.pt_run("direct-compilations", cases, dd_case_strategy_cut(p, types, vec![DdKind::Lel, DdKind::Frontier, DdKind::Pooled], true), |c| serde_json::to_value(c).unwrap(), |c, obs| eval_proto_dd(c, obs, check_width));
}
fn replay_proto(part: &str, case: &Value, check_width: bool) -> Verdict {
    if part == "solver-runs" {
        match decode::<ProtoCase>(case) {
            Ok(c) => eval_proto_solver(&c, &mut CaseObs::default(), check_width),
            Err(v) => v,
        }
    } else if part == "combinators" {
        match decode::<WidthCase>(case) {
            Ok(c) => eval_width_combinators(&c, &mut CaseObs::default()),
            Err(v) => v,
        }
    } else {
        match decode::<DdCase>(case) {
            Ok(c) => eval_proto_dd(&c, &mut CaseObs::default(), check_width),
            Err(v) => v,
        }
    }
}
pub fn def_c12() -> PropDef {
    PropDef {
        id: "C12",
        run: |ctx| run_proto(ctx, false),
        replay: |p, c, _| replay_proto(p, c, false),
        meta: || EvidenceMeta {
            rule: "every call into user code is recorded by wrappers around Problem / Relaxation / WidthHeuristic while (a) the sequential or the (real-thread) parallel solver solves generated instances - restricted and relaxed compilations, three diagram types - and (b) single diagrams are compiled directly in Exact / Restricted / Relaxed mode; an online monitor replays each compilation and checks every transition_cost / relax / merge / for_each_in_domain / next_variable call against the model (dst = transition(src,d), d in the enumerated domain, cost = current arc cost, merged = last merge output over >= 2 states of the layer containing dst, domain only for the selected variable and states of the layer, depth = root depth + layer index). One evaluation = one monitored compilation. Non-trivial = the compilation contains a relax call with dst != merged and relaxed cost != cost; distinct = hash of the serialised case.".into(),
            assumptions: vec!["the monitor recomputes transition / domain / cost with the (deterministic) model itself".into()],
        },
    }
}

#[derive(Clone, Debug, Serialize, Deserialize)]
pub enum WSpec {
    Fixed(usize),
    NbUnassigned(usize),
    Times(usize, Box<WSpec>),
    DivBy(usize, Box<WSpec>),
}
#[derive(Clone, Debug, Serialize, Deserialize)]
pub struct WidthCase {
    pub spec: WSpec,
    pub path_len: usize,
    pub depth: usize,
}
fn wspec_strategy() -> impl Strategy<Value = WSpec> {
    let leaf = prop_oneof![(0usize..=12).prop_map(WSpec::Fixed), (0usize..=12).prop_map(WSpec::NbUnassigned)];
    leaf.prop_recursive(3, 8, 1, |inner| prop_oneof![(0usize..=6, inner.clone()).prop_map(|(k, w)| WSpec::Times(k, Box::new(w))), (1usize..=6, inner).prop_map(|(k, w)| WSpec::DivBy(k, Box::new(w))),])
}
fn build_w(s: &WSpec) -> Box<dyn WidthHeuristic<St> + Send + Sync> {
    struct B(Box<dyn WidthHeuristic<St> + Send + Sync>);
    impl WidthHeuristic<St> for B {
        fn max_width(&self, s: &SubProblem<St>) -> usize {
            self.0.max_width(s)
        }
    }
    match s {
        WSpec::Fixed(w) => Box::new(FixedWidth(*w)),
        WSpec::NbUnassigned(n) => Box::new(NbUnassignedWidth(*n)),
        WSpec::Times(k, w) => Box::new(Times(*k, B(build_w(w)))),
        WSpec::DivBy(k, w) => Box::new(DivBy(*k, B(build_w(w)))),
    }
}
fn min_nb_unassigned(s: &WSpec) -> Option<usize> {
    match s {
        WSpec::Fixed(_) => None,
        WSpec::NbUnassigned(n) => Some(*n),
        WSpec::Times(_, w) | WSpec::DivBy(_, w) => min_nb_unassigned(w),
    }
}
fn is_combinator(s: &WSpec) -> bool {
    matches!(s, WSpec::Times(..) | WSpec::DivBy(..))
}
fn eval_width_combinators(c: &WidthCase, obs: &mut CaseObs) -> Verdict {
    // sound inputs: a path cannot be longer than the number of variables NbUnassigned was built with
    let path_len = match min_nb_unassigned(&c.spec) {
        Some(n) => c.path_len.min(n),
        None => c.path_len,
    };
    let w = build_w(&c.spec);
    let sp = SubProblem { state: std::sync::Arc::new(St { depth: 0, set: 1 }), value: 0, path: (0..path_len).map(|i| Decision { variable: Variable(i), value: 0 }).collect(), ub: isize::MAX, depth: c.depth.max(path_len) };
    take_panics();
    let r = std::panic::catch_unwind(std::panic::AssertUnwindSafe(|| w.max_width(&sp)));
    obs.nontrivial = is_combinator(&c.spec);
    match r {
        Ok(v) => {
            if is_combinator(&c.spec) && v == 0 {
                return Verdict::Fail(format!("combinator {:?} yields width 0 for a sub-problem with {} decisions", c.spec, path_len));
            }
            if v <= 1 {
                obs.label("width<=1");
            }
            Verdict::Pass
        }
        Err(_) => Verdict::Fail(format!("combinator {:?} panicked: {:?}", c.spec, take_panics())),
    }
}
pub fn def_c13() -> PropDef {
    PropDef {
        id: "C13",
        run: |ctx| {
            run_proto(ctx, true);
            let cases = ctx.tier.pick(20_000, 300_000);
            let strat = (wspec_strategy(), 0usize..=12, 0usize..=12).prop_map(|(spec, path_len, depth)| WidthCase { spec, path_len, depth });
            ctx.pt_run("combinators", cases, strat, |c| serde_json::to_value(c).unwrap(), eval_width_combinators);
        },
        replay: |p, c, _| replay_proto(p, c, true),
        meta: || EvidenceMeta {
            rule: "same recorded compilations as C12 but only all-impacted models (no irrelevance), widths 1..5, three diagram types, solver runs and direct compilations: the monitor counts the states whose domain is enumerated between two next_variable calls and requires <= max_width in every layer of a restricted compilation and in every layer of a relaxed compilation except the root layer and the first layer below it. Plus the width combinators: generated (nested) Times(k,.) / DivBy(k>=1,.) over FixedWidth(0..12) / NbUnassignedWidth(n) on generated sub-problems must never yield 0 nor panic. Non-trivial = the compilation has a layer that offers more states than max_width (squashing had to happen) / the heuristic is a combinator; distinct = hash of the serialised case.".into(),
            assumptions: vec!["DivBy(0, .) is excluded (documented to panic); NbUnassignedWidth(n) is only asked about sub-problems with at most n decisions (what the solvers do)".into()],
        },
    }
}

// =============================================================================================
// C14 - warm start
// =============================================================================================
#[derive(Clone, Debug, Serialize, Deserialize)]
pub struct PrimalCase {
    pub solve: SolveCase,
    pub offset: isize,
    pub idx: usize,
    /// second set_primal call: (offset, idx) of another witness
    pub second: Option<(isize, usize)>,
}
fn witness(o: &Oracle, t: &TableDP, sols: &[(isize, Vec<Decision>)], offset: isize, idx: usize) -> Option<(isize, Vec<Decision>)> {
    let _ = t;
    let opt = o.opt?;
    let c: Vec<_> = sols.iter().filter(|(v, _)| *v == opt - offset).collect();
    if c.is_empty() {
        None
    } else {
        Some(c[idx % c.len()].clone())
    }
}
fn sorted(mut s: Vec<Decision>) -> Vec<Decision> {
    s.sort_by_key(|d| d.variable.0);
    s
}
fn eval_c14(case: &PrimalCase, obs: &mut CaseObs) -> Verdict {
    let t = &case.solve.t;
    let o = Oracle::new(t);
    if let Err(e) = o.self_check(t) {
        return Verdict::HarnessError(e);
    }
    let sols = match o.all_solutions(t, 3000) {
        Some(s) => s,
        None => {
            obs.label("dropped:too-many-solutions");
            return Verdict::Pass;
        }
    };
    let p1 = match witness(&o, t, &sols, case.offset, case.idx) {
        Some(p) => p,
        None => {
            obs.label("dropped:no-feasible-solution-of-that-value");
            return Verdict::Pass;
        }
    };
    case.solve.cfg.labels(obs);
    obs.label(format!("primal:opt-{}", case.offset));
    // (a) final value is max(primal, optimum) = optimum, exact, and the reported solution is feasible with that value
    let out = run_table(t, &o, &case.solve.cfg, &RunOpts { primals: vec![p1.clone()], ..Default::default() });
    obs.nontrivial = case.offset <= 1;
    if let Err(e) = check_exact_run(&o, &out).and_then(|_| check_solution(t, &out, true, true)) {
        return Verdict::Fail(format!("warm start with a feasible solution of value {} (optimum {:?}): {e} [{:?}]", p1.0, o.opt, out));
    }
    if case.offset == 0 && out.best_solution.as_ref().map(|s| sorted(s.clone())) == Some(sorted(p1.1.clone())) {
        obs.label("caller-solution-returned");
    }
    // (b) set_primal replaces the incumbent only when strictly greater (observed through a run cut at its first poll)
    if let Some((off2, idx2)) = case.second {
        if let Some(p2) = witness(&o, t, &sols, off2, idx2) {
            obs.label(if p2.0 > p1.0 { "second-primal:greater" } else if p2.0 == p1.0 { "second-primal:equal" } else { "second-primal:smaller" });
            // both solvers (the parallel one with a single real worker: the run is cut at its very first poll)
            for threads in [None, Some(1)] {
                let out = run_table(t, &o, &case.solve.cfg, &RunOpts { primals: vec![p1.clone(), p2.clone()], fire_at: Some(1), threads, ..Default::default() });
                if out.panic.is_some() {
                    return Verdict::Fail(format!("panic: {:?}", out.panic));
                }
                let expect = if p2.0 > p1.0 { &p2 } else { &p1 };
                if out.best_value != Some(expect.0) || out.best_solution.as_ref().map(|s| sorted(s.clone())) != Some(sorted(expect.1.clone())) {
                    return Verdict::Fail(format!("{} solver: set_primal({}, s1) then set_primal({}, s2): incumbent is ({:?}, {:?}) but should be ({}, {:?})", if threads.is_some() { "parallel" } else { "sequential" }, p1.0, p2.0, out.best_value, out.best_solution, expect.0, expect.1));
                }
            }
        }
    }
    Verdict::Pass
}
pub fn def_c14() -> PropDef {
    PropDef {
        id: "C14",
        run: |ctx| {
            let cases = ctx.tier.pick(50_000, 500_000);
            let strat = (solve_case_strategy(GenParams::default_small(), ConfigGen { max_width: 3, ..Default::default() }), prop_oneof![3 => Just(0isize), 3 => Just(1isize), 2 => 2isize..=6], 0usize..64, prop::option::of((0isize..=6, 0usize..64)))
                .prop_map(|(solve, offset, idx, second)| PrimalCase { solve, offset, idx, second });
            ctx.pt_run("seq-warm-start", cases, strat, |c| serde_json::to_value(c).unwrap(), eval_c14);
            let (rc, sb, bound, mr) = match ctx.tier {
                Tier::Quick => (2_500, 4, 1, 600),
                Tier::Thorough => (15_000, 20, 2, 30_000),
            };
            par::run_prop(ctx, "C14", par::ParGen { primal: true, ..Default::default() }, rc, sb, bound, mr);
        },
        replay: |part, case, known| {
            if part.starts_with("par") {
                par::replay(part, case, known, "C14")
            } else {
                match decode::<PrimalCase>(case) {
                    Ok(c) => eval_c14(&c, &mut CaseObs::default()),
                    Err(v) => v,
                }
            }
        },
        meta: || EvidenceMeta {
            rule: "cases = (instance, configuration, witness solution of value optimum - d taken from the oracle's enumeration of all feasible solutions, d in 0..6) : set_primal(value, solution) then maximize() must be exact with value = optimum and a feasible reported solution (sequential solver; parallel solver under owned schedules); set_primal twice then a run cut at its first poll must keep the first primal unless the second is strictly greater. Cases for which no feasible solution has the requested value are dropped and counted (labels). Non-trivial = primal equal to the optimum or optimum - 1 (every pruning rule at its > / >= boundary); distinct = hash of the serialised case.".into(),
            assumptions: vec!["the primal handed to the solver is genuinely feasible (enumerated by the oracle)".into()],
        },
    }
}
