use crate::infra::*;
use serde_json::Value;

pub mod c01;
pub mod c05;
pub mod dd;
pub mod par;

pub struct PropDef {
    pub id: &'static str,
    pub run: fn(&mut Ctx),
    pub replay: fn(&str, &Value, &KnownFindings) -> Verdict,
    pub meta: fn() -> EvidenceMeta,
}

pub fn all() -> Vec<PropDef> {
    vec![c01::def(), dd::def_c06(), dd::def_c07(), dd::def_c08(), c05::c05::def(), c05::c19::def(), par::def_c03(), par::def_c04()]
}
pub fn find(id: &str) -> Option<PropDef> {
    all().into_iter().find(|d| d.id == id)
}
