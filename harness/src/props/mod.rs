use crate::infra::*;
use serde_json::Value;

pub mod c01;
pub mod c05;
pub mod dd;
pub mod dd_fam;
pub mod ds;
pub mod fam;
pub mod misc;
pub mod par;
pub mod viz;

pub struct PropDef {
    pub id: &'static str,
    pub run: fn(&mut Ctx),
    pub replay: fn(&str, &Value, &KnownFindings) -> Verdict,
    pub meta: fn() -> EvidenceMeta,
}

pub fn all() -> Vec<PropDef> {
    vec![c01::def(), dd::def_c06(), dd::def_c07(), dd::def_c08(), c05::c05::def(), c05::c19::def(), par::def_c03(), par::def_c04(), misc::def_c02(), misc::def_c09(), misc::def_c12(), misc::def_c13(), misc::def_c14(), ds::def_c10(), ds::def_c11(), ds::def_c17(), ds::def_c18(), fam::def_c15(), viz::def()]
}
pub fn find(id: &str) -> Option<PropDef> {
    all().into_iter().find(|d| d.id == id)
}
