use crate::infra::*;
use serde_json::Value;

pub mod c01;

pub struct PropDef {
    pub id: &'static str,
    pub run: fn(&mut Ctx),
    pub replay: fn(&str, &Value, &KnownFindings) -> Verdict,
    pub meta: fn() -> EvidenceMeta,
}

pub fn all() -> Vec<PropDef> {
    vec![c01::def()]
}
pub fn find(id: &str) -> Option<PropDef> {
    all().into_iter().find(|d| d.id == id)
}
