//! Data-structure level, model-based checks: C10 (dominance checker), C11 (fringes),
//! C17 (gap), C18 (cache / dominance stores, sequential and concurrent).
use crate::wrap::tkey;
use crate::infra::*;
use crate::model::*;
use crate::props::misc::{eval_c10_solver, eval_c11_solver};
use crate::props::par;
use crate::props::PropDef;
use crate::run::*;
use ddo::*;
use proptest::prelude::*;
use serde::{Deserialize, Serialize};
use serde_json::Value;
use std::cmp::Ordering;
use std::sync::{Arc, Barrier};

fn decode<T: serde::de::DeserializeOwned>(case: &Value) -> Result<T, Verdict> {
    serde_json::from_value::<T>(case.clone()).map_err(|e| Verdict::HarnessError(format!("cannot decode replay case: {e}")))
}

// =============================================================================================
// C10 - dominance checker vs reference Pareto front
// =============================================================================================
#[derive(Clone, Debug, PartialEq, Eq, Hash, Serialize, Deserialize)]
pub struct DState {
    pub key: u8,
    pub coords: Vec<i8>,
}
#[derive(Clone, Debug, Serialize, Deserialize)]
pub struct GenDomSpec {
    pub dims: usize,
    pub use_value: bool,
    /// 0: one key for all, 1: key = state.key, 2: key = state.key but key 1 means "no key"
    pub key_mode: u8,
}
pub struct GenDom(pub GenDomSpec);
impl Dominance for GenDom {
    type State = DState;
    type Key = u8;
    fn get_key(&self, s: Arc<DState>) -> Option<u8> {
        match self.0.key_mode {
            0 => Some(0),
            1 => Some(s.key),
            _ => {
                if s.key == 1 {
                    None
                } else {
                    Some(s.key)
                }
            }
        }
    }
    fn nb_dimensions(&self, _: &DState) -> usize {
        self.0.dims
    }
    fn get_coordinate(&self, s: &DState, i: usize) -> isize {
        s.coords[i] as isize
    }
    fn use_value(&self) -> bool {
        self.0.use_value
    }
}
#[derive(Clone, Debug, Serialize, Deserialize)]
pub enum DomOp {
    Query { state: DState, depth: usize, value: isize },
    ClearLayer(usize),
}
#[derive(Clone, Debug, Serialize, Deserialize)]
pub struct DomCase {
    pub spec: GenDomSpec,
    pub ops: Vec<DomOp>,
}
/// reference semantics
fn ref_key(spec: &GenDomSpec, s: &DState) -> Option<u8> {
    GenDom(spec.clone()).get_key(Arc::new(s.clone()))
}
/// a >= b everywhere (value included when used)
fn geq(spec: &GenDomSpec, a: &DState, va: isize, b: &DState, vb: isize) -> bool {
    (0..spec.dims).all(|i| a.coords[i] >= b.coords[i]) && (!spec.use_value || va >= vb)
}
fn strictly_dominates(spec: &GenDomSpec, a: &DState, va: isize, b: &DState, vb: isize) -> bool {
    geq(spec, a, va, b, vb) && ((0..spec.dims).any(|i| a.coords[i] > b.coords[i]) || (spec.use_value && va > vb))
}
#[derive(Default)]
struct RefFront {
    /// (depth, key) -> antichain
    fronts: std::collections::BTreeMap<(usize, u8), Vec<(DState, isize)>>,
}
impl RefFront {
    fn is_dominated(&self, spec: &GenDomSpec, s: &DState, depth: usize, v: isize) -> bool {
        match ref_key(spec, s) {
            None => false,
            Some(k) => self.fronts.get(&(depth, k)).map_or(false, |f| f.iter().any(|(e, ev)| strictly_dominates(spec, e, *ev, s, v))),
        }
    }
    fn query(&mut self, spec: &GenDomSpec, s: &DState, depth: usize, v: isize) -> bool {
        if self.is_dominated(spec, s, depth, v) {
            return true;
        }
        if let Some(k) = ref_key(spec, s) {
            let f = self.fronts.entry((depth, k)).or_default();
            f.retain(|(e, ev)| !geq(spec, s, v, e, *ev));
            f.push((s.clone(), v));
        }
        false
    }
}
const MAX_DEPTH: usize = 2;
pub fn eval_dom(case: &DomCase, obs: &mut CaseObs) -> Verdict {
    let spec = &case.spec;
    let checker = SimpleDominanceChecker::new(GenDom(spec.clone()), MAX_DEPTH);
    let mut reference = RefFront::default();
    let mut dominated_verdicts = 0;
    let mut evictions = 0;
    take_panics();
    for (i, op) in case.ops.iter().enumerate() {
        match op {
            DomOp::ClearLayer(d) => {
                checker.clear_layer(*d);
                reference.fronts.retain(|k, _| k.0 != *d);
            }
            DomOp::Query { state, depth, value } => {
                let before: usize = reference.fronts.values().map(|f| f.len()).sum();
                let r = match std::panic::catch_unwind(std::panic::AssertUnwindSafe(|| checker.is_dominated_or_insert(Arc::new(state.clone()), *depth, *value))) {
                    Ok(r) => r,
                    Err(_) => return Verdict::Fail(format!("step {i}: is_dominated_or_insert panicked: {:?}", take_panics())),
                };
                let expect = reference.query(spec, state, *depth, *value);
                let after: usize = reference.fronts.values().map(|f| f.len()).sum();
                if !expect && after <= before && ref_key(spec, state).is_some() {
                    evictions += 1;
                }
                if r.dominated != expect {
                    return Verdict::Fail(format!("step {i}: query ({:?}, depth {depth}, value {value}) reported dominated = {} but the reference Pareto front says {}", state, r.dominated, expect));
                }
                if r.dominated {
                    dominated_verdicts += 1;
                    match r.threshold {
                        Some(t) => {
                            if t < *value {
                                return Verdict::Fail(format!("step {i}: dominated verdict with threshold {t} below the presented value {value}"));
                            }
                            if !reference.is_dominated(spec, state, *depth, t) {
                                return Verdict::Fail(format!("step {i}: dominated verdict with threshold {t} but the same state presented with value {t} would not be dominated"));
                            }
                        }
                        None => {
                            if spec.use_value {
                                return Verdict::Fail(format!("step {i}: dominated verdict without a threshold although values are used"));
                            }
                        }
                    }
                }
            }
        }
    }
    // comparator: a dominating state ranks first; and it is a total pre-order
    let queries: Vec<(&DState, isize)> = case.ops.iter().filter_map(|o| if let DomOp::Query { state, value, .. } = o { Some((state, *value)) } else { None }).take(6).collect();
    for (a, va) in queries.iter() {
        for (b, vb) in queries.iter() {
            let c = checker.cmp(a, *va, b, *vb);
            if ref_key(spec, a) == ref_key(spec, b) && strictly_dominates(spec, a, *va, b, *vb) && c != Ordering::Greater {
                return Verdict::Fail(format!("comparator: ({:?},{va}) dominates ({:?},{vb}) but cmp returns {:?}", a, b, c));
            }
            if checker.cmp(b, *vb, a, *va) != c.reverse() {
                return Verdict::Fail(format!("comparator is not antisymmetric on ({:?},{va}) / ({:?},{vb})", a, b));
            }
            for (c3, vc) in queries.iter() {
                if c != Ordering::Less && checker.cmp(b, *vb, c3, *vc) != Ordering::Less && checker.cmp(a, *va, c3, *vc) == Ordering::Less {
                    return Verdict::Fail(format!("comparator is not transitive on ({:?},{va}) ({:?},{vb}) ({:?},{vc})", a, b, c3));
                }
            }
        }
    }
    obs.nontrivial = dominated_verdicts >= 1 && evictions >= 1;
    if dominated_verdicts >= 1 {
        obs.label("dominated-verdict");
    }
    if evictions >= 1 {
        obs.label("eviction");
    }
    Verdict::Pass
}
fn dstate_strategy(dims: usize, cmax: i8) -> impl Strategy<Value = DState> {
    (0u8..2, prop::collection::vec(0i8..=cmax, dims)).prop_map(|(key, coords)| DState { key, coords })
}
fn dom_case_strategy() -> impl Strategy<Value = DomCase> {
    (1usize..=3, any::<bool>(), 0u8..3).prop_flat_map(|(dims, use_value, key_mode)| {
        let op = prop_oneof![
            12 => (dstate_strategy(dims, 2), 0usize..2, 0isize..=2).prop_map(|(state, depth, value)| DomOp::Query { state, depth, value }),
            1 => (0usize..2).prop_map(DomOp::ClearLayer),
        ];
        prop::collection::vec(op, 1..60).prop_map(move |ops| DomCase { spec: GenDomSpec { dims, use_value, key_mode }, ops })
    })
}
/// exhaustive enumeration of all op sequences of length `len` over the reduced alphabet (dims 2, coords {0,1}, 2 keys, 2 depths, values {0,1,2})
fn dom_alphabet() -> Vec<DomOp> {
    let mut a = vec![];
    for key in 0..2u8 {
        for c0 in 0..2i8 {
            for c1 in 0..2i8 {
                for depth in 0..2usize {
                    for value in 0..3isize {
                        a.push(DomOp::Query { state: DState { key, coords: vec![c0, c1] }, depth, value });
                    }
                }
            }
        }
    }
    a.push(DomOp::ClearLayer(0));
    a.push(DomOp::ClearLayer(1));
    a
}
fn enumerate_seqs<T: Clone>(alphabet: &[T], len: usize, shard: usize, nshards: usize, mut f: impl FnMut(&[T]) -> bool) {
    // mixed radix counter; sequences are distributed over shards by index
    let n = alphabet.len();
    let total = (n as u64).pow(len as u32);
    let mut idx = shard as u64;
    let mut seq: Vec<T> = Vec::with_capacity(len);
    while idx < total {
        seq.clear();
        let mut x = idx;
        for _ in 0..len {
            seq.push(alphabet[(x % n as u64) as usize].clone());
            x /= n as u64;
        }
        if !f(&seq) {
            return;
        }
        idx += nshards as u64;
    }
}
pub fn def_c10() -> PropDef {
    PropDef {
        id: "C10",
        run: |ctx| {
            // checker level, random
            let cases = ctx.tier.pick(60_000, 600_000);
            ctx.pt_run("checker-random", cases, dom_case_strategy(), |c| serde_json::to_value(c).unwrap(), eval_dom);
            // checker level, bounded exhaustive
            let len = ctx.tier.pick(3, 4);
            let alphabet = dom_alphabet();
            for use_value in [false, true] {
                for key_mode in [1u8, 2u8] {
                    if ctx.tier == Tier::Quick && key_mode == 2 {
                        continue;
                    }
                    let spec = GenDomSpec { dims: 2, use_value, key_mode };
                    let (shard, nshards) = (ctx.shard, ctx.nshards);
                    let mut failed = false;
                    enumerate_seqs(&alphabet, len, shard, nshards, |seq| {
                        let case = DomCase { spec: spec.clone(), ops: seq.to_vec() };
                        let mut obs = CaseObs::default();
                        let v = eval_dom(&case, &mut obs);
                        let bad = matches!(v, Verdict::Fail(_));
                        ctx.account("checker-exhaustive", obs, || serde_json::to_value(&case).unwrap(), v);
                        if bad {
                            failed = true;
                        }
                        !bad
                    });
                    if failed {
                        break;
                    }
                }
            }
            ctx.stats.exhaustive.insert(format!("checker-exhaustive: all query/clear sequences of length {len} over 2 keys x 2x2 coordinates x 2 depths x 3 values (50 ops), with and without value"), true);
            // solver level: admissible rules never change the optimum
            let cases = ctx.tier.pick(30_000, 400_000);
            let strat = solve_case_strategy(GenParams::default_small(), ConfigGen { max_width: 3, dom: Some(true), ..Default::default() });
            ctx.pt_run("solver-dominance", cases, strat, |c| serde_json::to_value(c).unwrap(), eval_c10_solver);
            let (rc, sb, bound, mr) = match ctx.tier {
                Tier::Quick => (1_500, 3, 1, 400),
                Tier::Thorough => (10_000, 20, 2, 30_000),
            };
            par::run_prop(ctx, "C10", par::ParGen { dom: Some(true), ..Default::default() }, rc, sb, bound, mr);
        },
        replay: |part, case, known| {
            if part.starts_with("par") {
                par::replay(part, case, known, "C10")
            } else if part.starts_with("checker") {
                match decode::<DomCase>(case) {
                    Ok(c) => eval_dom(&c, &mut CaseObs::default()),
                    Err(v) => v,
                }
            } else {
                match decode::<SolveCase>(case) {
                    Ok(c) => eval_c10_solver(&c, &mut CaseObs::default()),
                    Err(v) => v,
                }
            }
        },
        meta: || EvidenceMeta {
            rule: "checker level: generated Dominance implementations (1-3 coordinates over {0,1,2}, with/without value, three key modes incl. 'no key') and sequences of is_dominated_or_insert / clear_layer (bounded-exhaustive up to a fixed length over a reduced alphabet, random up to length 60) compared step by step with a reference Pareto front (antichain per depth and key): verdict, threshold soundness (>= value and still dominated at the threshold), comparator (dominating state ranks first, total pre-order). solver level: instances solved with an admissible rule (exact / weakened / keyed, derived from h*; DESIGN §3.1 and §11) and without, sequential and scheduled-parallel, both compared with h*. Non-trivial = sequence with >= 1 dominated verdict and >= 1 eviction / run in which dominance pruned >= 1 node; distinct = hash of the serialised case.".into(),
            assumptions: vec!["solver-level rules are admissible in the strong sense (a dominated state has a strictly worse best completion, or an equal one with a strictly smaller value): DESIGN §11 explains why a merely tie-breaking rule is not in scope".into()],
        },
    }
}

// =============================================================================================
// C11 - fringes vs reference priority queue
// =============================================================================================
#[derive(Clone, Debug, Serialize, Deserialize, PartialEq, Eq)]
pub enum FrOp {
    Push { state: u8, depth: usize, value: isize, ub: isize },
    Pop,
    Clear,
}
#[derive(Clone, Debug, Serialize, Deserialize)]
pub struct FringeCase {
    pub nodup: bool,
    pub ops: Vec<FrOp>,
}
struct U8Rank;
impl StateRanking for U8Rank {
    type State = u8;
    fn compare(&self, a: &u8, b: &u8) -> Ordering {
        a.cmp(b)
    }
}
#[derive(Clone, Debug, PartialEq, Eq)]
struct REntry {
    state: u8,
    depth: usize,
    value: isize,
    ub: isize,
    tag: usize,
}
pub fn eval_fringe(case: &FringeCase, obs: &mut CaseObs) -> Verdict {
    let rank = U8Rank;
    let mut simple = SimpleFringe::new(MaxUB::new(&rank));
    let mut nodup = NoDupFringe::new(MaxUB::new(&rank));
    let fr: &mut dyn Fringe<State = u8> = if case.nodup { &mut nodup } else { &mut simple };
    let mut reference: Vec<REntry> = vec![];
    let mut coalesced = 0;
    let mut deep_pops = 0;
    let mut cross_depth_same_state = 0;
    take_panics();
    let res = std::panic::catch_unwind(std::panic::AssertUnwindSafe(|| -> Result<(), String> {
        for (i, op) in case.ops.iter().enumerate() {
            match op {
                FrOp::Push { state, depth, value, ub } => {
                    let tag = i;
                    fr.push(SubProblem { state: Arc::new(*state), value: *value, path: vec![Decision { variable: Variable(tag), value: tag as isize }], ub: *ub, depth: *depth });
                    if reference.iter().any(|e| e.state == *state && e.depth != *depth) {
                        cross_depth_same_state += 1;
                    }
                    if case.nodup {
                        if let Some(e) = reference.iter_mut().find(|e| e.state == *state && e.depth == *depth) {
                            coalesced += 1;
                            if *value > e.value {
                                e.value = *value;
                                e.tag = tag;
                            }
                            if *ub > e.ub {
                                e.ub = *ub;
                            }
                        } else {
                            reference.push(REntry { state: *state, depth: *depth, value: *value, ub: *ub, tag });
                        }
                    } else {
                        reference.push(REntry { state: *state, depth: *depth, value: *value, ub: *ub, tag });
                    }
                }
                FrOp::Pop => {
                    let got = fr.pop();
                    if reference.len() >= 3 {
                        deep_pops += 1;
                    }
                    match got {
                        None => {
                            if !reference.is_empty() {
                                return Err(format!("step {i}: pop returned nothing although {} sub-problem(s) are still in the queue", reference.len()));
                            }
                        }
                        Some(n) => {
                            let tag = n.path.first().map(|d| d.variable.id());
                            let e = REntry { state: *n.state, depth: n.depth, value: n.value, ub: n.ub, tag: tag.unwrap_or(usize::MAX) };
                            if n.path.len() != 1 || n.path[0].value != e.tag as isize {
                                return Err(format!("step {i}: popped sub-problem carries a path {:?} that was never pushed", n.path));
                            }
                            let pos = match reference.iter().position(|r| *r == e) {
                                Some(p) => p,
                                None => return Err(format!("step {i}: popped {:?} which is not in the reference queue {:?} (lost / invented / wrongly coalesced)", e, reference)),
                            };
                            let key = |r: &REntry| (r.ub, r.value, r.state);
                            let best = reference.iter().map(key).max().unwrap();
                            if key(&e) != best {
                                return Err(format!("step {i}: popped {:?} although the queue holds an entry with (ub, value, state) = {:?}", e, best));
                            }
                            reference.remove(pos);
                        }
                    }
                }
                FrOp::Clear => {
                    fr.clear();
                    reference.clear();
                }
            }
            if fr.len() != reference.len() {
                return Err(format!("step {i}: len() = {} but {} sub-problem(s) can be popped", fr.len(), reference.len()));
            }
            if fr.is_empty() != reference.is_empty() {
                return Err(format!("step {i}: is_empty() = {} but the queue holds {} item(s)", fr.is_empty(), reference.len()));
            }
        }
        // drain: everything left must come out, in order
        let mut last: Option<(isize, isize, u8)> = None;
        while let Some(n) = fr.pop() {
            let tag = n.path.first().map(|d| d.variable.id()).unwrap_or(usize::MAX);
            let e = REntry { state: *n.state, depth: n.depth, value: n.value, ub: n.ub, tag };
            let pos = match reference.iter().position(|r| *r == e) {
                Some(p) => p,
                None => return Err(format!("final drain: popped {:?} which is not in the reference queue {:?}", e, reference)),
            };
            reference.remove(pos);
            let k = (e.ub, e.value, e.state);
            if let Some(l) = last {
                if k > l {
                    return Err(format!("final drain: {:?} popped after {:?}: not in non-increasing (ub, value) order", k, l));
                }
            }
            last = Some(k);
        }
        if !reference.is_empty() {
            return Err(format!("final drain: {} sub-problem(s) were lost: {:?}", reference.len(), reference));
        }
        Ok(())
    }));
    obs.nontrivial = coalesced >= 1 || deep_pops >= 1 || cross_depth_same_state >= 1;
    if coalesced >= 1 {
        obs.label("coalesced");
    }
    if cross_depth_same_state >= 1 {
        obs.label("same-state-other-depth");
    }
    if deep_pops >= 1 {
        obs.label("pop-with>=3-live");
    }
    match res {
        Ok(Ok(())) => Verdict::Pass,
        Ok(Err(e)) => Verdict::Fail(format!("{} fringe: {e}", if case.nodup { "duplicate-free" } else { "simple" })),
        Err(_) => Verdict::Fail(format!("{} fringe panicked: {:?}", if case.nodup { "duplicate-free" } else { "simple" }, take_panics())),
    }
}
fn fringe_case_strategy() -> impl Strategy<Value = FringeCase> {
    let op = prop_oneof![
        6 => (0u8..5, 0usize..3, 0isize..4, 0isize..6).prop_map(|(state, depth, value, ub)| FrOp::Push { state, depth, value, ub }),
        3 => Just(FrOp::Pop),
        1 => Just(FrOp::Clear),
    ];
    (any::<bool>(), prop_oneof![3 => prop::collection::vec(op.clone(), 1..40), 1 => prop::collection::vec(op, 40..200)]).prop_map(|(nodup, ops)| FringeCase { nodup, ops })
}
fn fringe_alphabet() -> Vec<FrOp> {
    let mut a = vec![];
    for state in 0..2u8 {
        for depth in 0..2usize {
            for value in 0..2isize {
                for ub in 0..2isize {
                    a.push(FrOp::Push { state, depth, value, ub });
                }
            }
        }
    }
    a.push(FrOp::Pop);
    a.push(FrOp::Clear);
    a
}
pub fn def_c11() -> PropDef {
    PropDef {
        id: "C11",
        run: |ctx| {
            let cases = ctx.tier.pick(100_000, 800_000);
            ctx.pt_run("fringe-random", cases, fringe_case_strategy(), |c| serde_json::to_value(c).unwrap(), eval_fringe);
            let len = ctx.tier.pick(5, 6);
            let alphabet = fringe_alphabet();
            for nodup in [false, true] {
                let (shard, nshards) = (ctx.shard, ctx.nshards);
                let mut failed = false;
                enumerate_seqs(&alphabet, len, shard, nshards, |seq| {
                    // sequences without any pop are decided by the final drain alone
                    let case = FringeCase { nodup, ops: seq.to_vec() };
                    let mut obs = CaseObs::default();
                    let v = eval_fringe(&case, &mut obs);
                    let bad = matches!(v, Verdict::Fail(_));
                    ctx.account("fringe-exhaustive", obs, || serde_json::to_value(&case).unwrap(), v);
                    if bad {
                        failed = true;
                    }
                    !bad
                });
                if failed {
                    break;
                }
            }
            ctx.stats.exhaustive.insert(format!("fringe-exhaustive: all push/pop/clear sequences of length {len} over 2 states x 2 depths x 2 values x 2 upper bounds (18 ops), both fringes"), true);
            // solver level: models whose state does not embed the depth
            let cases = ctx.tier.pick(30_000, 400_000);
            let mut p = GenParams::default_small();
            p.embed = Some(false);
            let strat = solve_case_strategy(p, ConfigGen { max_width: 3, ..Default::default() });
            ctx.pt_run("solver-depth-free-states", cases, strat, |c| serde_json::to_value(c).unwrap(), eval_c11_solver);
        },
        replay: |part, case, _| {
            if part.starts_with("fringe") {
                match decode::<FringeCase>(case) {
                    Ok(c) => eval_fringe(&c, &mut CaseObs::default()),
                    Err(v) => v,
                }
            } else if part.starts_with("regress") && case.get("ops").is_some() {
                match decode::<FringeCase>(case) {
                    Ok(c) => eval_fringe(&c, &mut CaseObs::default()),
                    Err(v) => v,
                }
            } else {
                match decode::<SolveCase>(case) {
                    Ok(c) => eval_c11_solver(&c, &mut CaseObs::default()),
                    Err(v) => v,
                }
            }
        },
        meta: || EvidenceMeta {
            rule: "fringe level: sequences of push / pop / clear (bounded-exhaustive over a reduced alphabet, random up to length 200 over 5 states x 3 depths x 4 values x 6 upper bounds) applied to SimpleFringe and NoDupFringe with the standard MaxUB ranking and to a reference multiset; after every step: len()/is_empty(), every pop must return exactly an entry of the reference that is maximal for (ub, value, state rank) - entries carry unique path tags so nothing can be lost, invented or mixed up; NoDup reference: entries coalesce only on equal (state, depth), survivor = larger value with its own path, larger ub; a final drain must return everything left in non-increasing order. solver level: depth-free models solved with both fringes and compared with h*. Non-trivial = a push was coalesced, or hit a state present at another depth, or a pop happened with >= 3 live entries / the solver's fringe coalesced >= 1 push; distinct = hash of the serialised case.".into(),
            assumptions: vec!["state ranking used is a genuine total order (a caller obligation)".into()],
        },
    }
}

// =============================================================================================
// C17 - gap
// =============================================================================================
struct Stub {
    lb: isize,
    ub: isize,
}
impl Solver for Stub {
    fn maximize(&mut self) -> Completion {
        Completion { is_exact: false, best_value: None }
    }
    fn best_value(&self) -> Option<isize> {
        None
    }
    fn best_solution(&self) -> Option<Solution> {
        None
    }
    fn best_lower_bound(&self) -> isize {
        self.lb
    }
    fn best_upper_bound(&self) -> isize {
        self.ub
    }
    fn set_primal(&mut self, _: isize, _: Solution) {}
    fn explored(&self) -> usize {
        0
    }
}
fn check_gap(lb: isize, ub: isize, g: f32) -> Result<(), String> {
    if g.is_nan() {
        return Err(format!("gap() is NaN for lb = {lb}, ub = {ub}"));
    }
    if g < 0.0 {
        return Err(format!("gap() = {g} is negative for lb = {lb}, ub = {ub}"));
    }
    if lb == isize::MIN || ub == isize::MAX {
        if g != 1.0 {
            return Err(format!("gap() = {g} although a bound is still infinite (lb = {lb}, ub = {ub})"));
        }
        return Ok(());
    }
    if (g == 0.0) != (lb == ub) {
        return Err(format!("gap() = {g} for lb = {lb}, ub = {ub}: it must be 0 exactly when the bounds coincide"));
    }
    let same_sign = (lb >= 0 && ub >= 0) || (lb <= 0 && ub <= 0);
    if same_sign && g > 1.0 {
        return Err(format!("gap() = {g} > 1 although both bounds have the same sign (lb = {lb}, ub = {ub})"));
    }
    Ok(())
}
#[derive(Clone, Debug, Serialize, Deserialize)]
pub struct GapCase {
    pub lb: isize,
    pub ub: isize,
}
fn eval_gap(c: &GapCase, obs: &mut CaseObs) -> Verdict {
    let (lb, ub) = if c.lb <= c.ub { (c.lb, c.ub) } else { (c.ub, c.lb) };
    take_panics();
    let r = std::panic::catch_unwind(|| Stub { lb, ub }.gap());
    obs.nontrivial = lb != isize::MIN && ub != isize::MAX;
    obs.label(if lb == ub { "equal" } else if (lb < 0) != (ub < 0) && lb != 0 && ub != 0 { "mixed-sign" } else { "same-sign" });
    match r {
        Ok(g) => match check_gap(lb, ub, g) {
            Ok(()) => Verdict::Pass,
            Err(e) => Verdict::Fail(e),
        },
        Err(_) => Verdict::Fail(format!("gap() panicked for lb = {lb}, ub = {ub}: {:?}", take_panics())),
    }
}
fn eval_gap_solver(case: &SolveCase, obs: &mut CaseObs) -> Verdict {
    let o = Oracle::new(&case.t);
    let out = run_table(&case.t, &o, &case.cfg, &RunOpts::default());
    if out.panic.is_some() || out.exhausted {
        return Verdict::Pass;
    }
    obs.nontrivial = o.opt.map_or(false, |v| v <= 0);
    match o.opt {
        Some(0) => obs.label("opt:zero"),
        Some(v) if v < 0 => obs.label("opt:negative"),
        None => obs.label("opt:infeasible"),
        _ => obs.label("opt:positive"),
    }
    match check_gap(out.lb, out.ub, out.gap) {
        Ok(()) => Verdict::Pass,
        Err(e) => Verdict::Fail(format!("after a completed run: {e}")),
    }
}
pub fn def_c17() -> PropDef {
    PropDef {
        id: "C17",
        run: |ctx| {
            // exhaustive grid (shard 0 only, it is tiny) incl. neighbours at every magnitude
            if ctx.shard == 0 {
                let mut grid: Vec<isize> = vec![isize::MIN, isize::MIN + 1, -(1 << 62), -1_000_000_000, -7, -1, 0, 1, 7, 1_000_000_000, 1 << 62, isize::MAX - 1, isize::MAX];
                let base = grid.clone();
                for x in base {
                    for d in [-2isize, -1, 1, 2] {
                        if let Some(y) = x.checked_add(d) {
                            grid.push(y);
                        }
                    }
                }
                for k in [8u32, 16, 24, 31, 32, 33, 40, 52, 53, 54, 61] {
                    for s in [-1isize, 1] {
                        grid.push(s * (1isize << k));
                        grid.push(s * ((1isize << k) + 1));
                        grid.push(s * ((1isize << k) - 1));
                    }
                }
                grid.sort();
                grid.dedup();
                for &lb in grid.iter() {
                    for &ub in grid.iter() {
                        if lb <= ub {
                            let c = GapCase { lb, ub };
                            let mut obs = CaseObs::default();
                            let v = eval_gap(&c, &mut obs);
                            ctx.account("grid", obs, || serde_json::to_value(&c).unwrap(), v);
                        }
                    }
                }
                ctx.stats.exhaustive.insert("grid: all pairs lb <= ub over a grid of infinities, 0, +-1, +-7, +-1e9, +-2^k (k = 8..62) and their neighbours".into(), true);
            }
            let cases = ctx.tier.pick(100_000, 1_000_000);
            let v = prop_oneof![
                2 => any::<isize>(),
                2 => -1000isize..1000,
                1 => (0u32..63, any::<bool>(), -3isize..=3).prop_map(|(k, neg, d)| { let x = (1isize << k).saturating_add(d); if neg { -x } else { x } }),
                1 => prop::sample::select(vec![isize::MIN, isize::MAX, 0, 1, -1]),
            ];
            let strat = (v.clone(), prop_oneof![3 => v, 1 => (0isize..4).prop_map(|d| d)], any::<bool>()).prop_map(|(a, b, rel)| if rel { GapCase { lb: a, ub: a.saturating_add(b.rem_euclid(5)) } } else { GapCase { lb: a, ub: b } });
            ctx.pt_run("random-pairs", cases, strat, |c| serde_json::to_value(c).unwrap(), eval_gap);
            let cases = ctx.tier.pick(6_000, 100_000);
            let strat = solve_case_strategy(GenParams::default_small(), ConfigGen { max_width: 3, ..Default::default() });
            ctx.pt_run("after-solver-runs", cases, strat, |c| serde_json::to_value(c).unwrap(), eval_gap_solver);
        },
        replay: |part, case, _| {
            if part == "after-solver-runs" {
                match decode::<SolveCase>(case) {
                    Ok(c) => eval_gap_solver(&c, &mut CaseObs::default()),
                    Err(v) => v,
                }
            } else {
                match decode::<GapCase>(case) {
                    Ok(c) => eval_gap(&c, &mut CaseObs::default()),
                    Err(v) => v,
                }
            }
        },
        meta: || EvidenceMeta {
            rule: "the default method Solver::gap() is called on a stub solver exposing chosen (lb, ub): exhaustive grid (infinities, 0, small, huge, powers of two and their neighbours, both signs), random pairs (uniform, small, near powers of two, near-equal), plus gap() after completed solver runs on generated instances (optimum zero / negative / infeasible are labelled). Oracle = the five stated predicates (not NaN, >= 0, 1 iff a bound is infinite, 0 iff lb = ub otherwise, <= 1 for same-sign bounds). Non-trivial = pair without infinite bound / run whose optimum is <= 0; distinct = hash of the pair or case.".into(),
            assumptions: vec!["lb <= ub (pairs are ordered before use)".into()],
        },
    }
}

// =============================================================================================
// C18 - cache and dominance stores
// =============================================================================================
#[derive(Clone, Debug, Serialize, Deserialize, PartialEq, Eq)]
pub enum CacheOp {
    Update { state: u8, depth: usize, value: isize, explored: bool },
    ClearLayer(usize),
    Clear,
}
#[derive(Clone, Debug, Serialize, Deserialize)]
pub struct CacheCase {
    pub ops: Vec<CacheOp>,
}
struct NVars(usize);
impl Problem for NVars {
    type State = u8;
    fn nb_variables(&self) -> usize {
        self.0
    }
    fn initial_state(&self) -> u8 {
        0
    }
    fn initial_value(&self) -> isize {
        0
    }
    fn transition(&self, s: &u8, _: Decision) -> u8 {
        *s
    }
    fn transition_cost(&self, _: &u8, _: &u8, _: Decision) -> isize {
        0
    }
    fn next_variable(&self, _: usize, _: &mut dyn Iterator<Item = &u8>) -> Option<Variable> {
        None
    }
    fn for_each_in_domain(&self, _: Variable, _: &u8, _: &mut dyn DecisionCallback) {}
}
const CACHE_STATES: u8 = 3;
const CACHE_DEPTHS: usize = 3;
pub fn eval_cache(case: &CacheCase, obs: &mut CaseObs) -> Verdict {
    let mut cache: SimpleCache<u8> = Default::default();
    cache.initialize(&NVars(CACHE_DEPTHS - 1));
    let mut empty: EmptyCache<u8> = Default::default();
    empty.initialize(&NVars(CACHE_DEPTHS - 1));
    let mut reference: std::collections::BTreeMap<(usize, u8), Threshold> = Default::default();
    let mut overwrites = 0;
    let mut clears_after_update = 0;
    take_panics();
    let r = std::panic::catch_unwind(std::panic::AssertUnwindSafe(|| -> Result<(), String> {
        for (i, op) in case.ops.iter().enumerate() {
            match op {
                CacheOp::Update { state, depth, value, explored } => {
                    cache.update_threshold(Arc::new(*state), *depth, *value, *explored);
                    empty.update_threshold(Arc::new(*state), *depth, *value, *explored);
                    let th = Threshold { value: *value, explored: *explored };
                    match reference.get_mut(&(*depth, *state)) {
                        Some(e) => {
                            overwrites += 1;
                            if tkey(&th) > tkey(e) {
                                *e = th;
                            }
                        }
                        None => {
                            reference.insert((*depth, *state), th);
                        }
                    }
                }
                CacheOp::ClearLayer(d) => {
                    if reference.keys().any(|k| k.0 == *d) {
                        clears_after_update += 1;
                    }
                    cache.clear_layer(*d);
                    empty.clear_layer(*d);
                    reference.retain(|k, _| k.0 != *d);
                }
                CacheOp::Clear => {
                    cache.clear();
                    empty.clear();
                    reference.clear();
                }
            }
            // read ALL keys after every step
            for depth in 0..CACHE_DEPTHS {
                for state in 0..CACHE_STATES {
                    let got = cache.get_threshold(&state, depth);
                    let expect = reference.get(&(depth, state)).copied();
                    if got != expect {
                        return Err(format!("step {i} ({:?}): get_threshold(state {state}, depth {depth}) = {:?} but the reference map says {:?}", op, got, expect));
                    }
                    if empty.get_threshold(&state, depth).is_some() {
                        return Err(format!("step {i}: EmptyCache returned a threshold"));
                    }
                    for v in 0..3isize {
                        let sp = SubProblem { state: Arc::new(state), value: v, path: vec![], ub: isize::MAX, depth };
                        let expect_explore = match expect {
                            None => true,
                            Some(t) => v > t.value || (v == t.value && !t.explored),
                        };
                        if cache.must_explore(&sp) != expect_explore {
                            return Err(format!("step {i}: must_explore(state {state}, depth {depth}, value {v}) = {} with threshold {:?}", !expect_explore, expect));
                        }
                        if !empty.must_explore(&sp) {
                            return Err(format!("step {i}: EmptyCache.must_explore answered false"));
                        }
                    }
                }
            }
        }
        Ok(())
    }));
    obs.nontrivial = overwrites >= 1 && clears_after_update >= 1;
    if overwrites >= 1 {
        obs.label("same-key-updated-twice");
    }
    if clears_after_update >= 1 {
        obs.label("clear-of-non-empty-layer");
    }
    match r {
        Ok(Ok(())) => Verdict::Pass,
        Ok(Err(e)) => Verdict::Fail(e),
        Err(_) => Verdict::Fail(format!("cache panicked: {:?}", take_panics())),
    }
}
fn cache_alphabet() -> Vec<CacheOp> {
    let mut a = vec![];
    for state in 0..2u8 {
        for depth in 0..2usize {
            for value in 0..3isize {
                for explored in [false, true] {
                    a.push(CacheOp::Update { state, depth, value, explored });
                }
            }
        }
    }
    a.push(CacheOp::ClearLayer(0));
    a.push(CacheOp::ClearLayer(1));
    a.push(CacheOp::Clear);
    a
}

/// concurrent phase on the cache: T threads, update-only, few keys
#[derive(Clone, Debug, Serialize, Deserialize)]
pub struct ConcCacheCase {
    pub threads: Vec<Vec<(u8, isize, bool)>>, // per thread: (state, value, explored) updates on depth 0, each followed by a get
}
fn eval_conc_cache(case: &ConcCacheCase, obs: &mut CaseObs) -> Verdict {
    let rounds = 8;
    let nthreads = case.threads.len();
    let mut touched: std::collections::BTreeMap<u8, usize> = Default::default();
    for t in case.threads.iter() {
        let mut keys: Vec<u8> = t.iter().map(|x| x.0).collect();
        keys.sort();
        keys.dedup();
        for k in keys {
            *touched.entry(k).or_insert(0) += 1;
        }
    }
    obs.nontrivial = touched.values().any(|c| *c >= 2);
    obs.label(format!("threads:{}", nthreads.min(16)));
    obs.evals = rounds as u64;
    for _ in 0..rounds {
        let mut cache: SimpleCache<u8> = Default::default();
        cache.initialize(&NVars(1));
        let cache = Arc::new(cache);
        let barrier = Arc::new(Barrier::new(nthreads));
        let mut handles = vec![];
        for ops in case.threads.iter().cloned() {
            let cache = cache.clone();
            let barrier = barrier.clone();
            handles.push(std::thread::spawn(move || {
                barrier.wait();
                let mut seen: Vec<(u8, Option<Threshold>)> = vec![];
                for (s, v, e) in ops {
                    cache.update_threshold(Arc::new(s), 0, v, e);
                    seen.push((s, cache.get_threshold(&s, 0)));
                }
                seen
            }));
        }
        let observations: Vec<Vec<(u8, Option<Threshold>)>> = handles.into_iter().map(|h| h.join().unwrap()).collect();
        // oracle
        for key in 0..CACHE_STATES {
            let all: Vec<Threshold> = case.threads.iter().flatten().filter(|x| x.0 == key).map(|x| Threshold { value: x.1, explored: x.2 }).collect();
            let expect = all.iter().max_by_key(|t| tkey(t)).copied();
            let got = cache.get_threshold(&key, 0);
            if got != expect {
                return Verdict::Fail(format!("after concurrent updates, key {key} holds {:?} but the maximum of all updates is {:?} (an update was lost)", got, expect));
            }
            for (ti, obs_t) in observations.iter().enumerate() {
                let mut last: Option<Threshold> = None;
                for (i, (s, th)) in obs_t.iter().enumerate() {
                    if *s != key {
                        continue;
                    }
                    let own = Threshold { value: case.threads[ti][i].1, explored: case.threads[ti][i].2 };
                    match th {
                        None => return Verdict::Fail(format!("thread {ti} read nothing for key {key} right after its own update")),
                        Some(t) => {
                            if !all.contains(t) {
                                return Verdict::Fail(format!("thread {ti} read threshold {:?} for key {key} which nobody wrote", t));
                            }
                            if tkey(t) < tkey(&own) {
                                return Verdict::Fail(format!("thread {ti} read {:?} for key {key} right after updating it with {:?}: a stored threshold decreased", t, own));
                            }
                            if let Some(l) = last {
                                if tkey(t) < tkey(&l) {
                                    return Verdict::Fail(format!("thread {ti} observed the threshold of key {key} decrease from {:?} to {:?}", l, t));
                                }
                            }
                            last = Some(*t);
                        }
                    }
                }
            }
        }
    }
    Verdict::Pass
}

/// concurrent phase on the dominance store: all threads hammer one key at one depth
#[derive(Clone, Debug, Serialize, Deserialize)]
pub struct ConcDomCase {
    pub spec: GenDomSpec,
    pub threads: Vec<Vec<(Vec<i8>, isize)>>,
    pub probes: Vec<(Vec<i8>, isize)>,
}
fn eval_conc_dom(case: &ConcDomCase, obs: &mut CaseObs) -> Verdict {
    let rounds = 6;
    let spec = &case.spec;
    let nthreads = case.threads.len();
    obs.nontrivial = nthreads >= 2 && case.threads.iter().filter(|t| !t.is_empty()).count() >= 2;
    obs.label(format!("threads:{}", nthreads.min(16)));
    obs.evals = rounds as u64;
    let all: Vec<(DState, isize)> = case.threads.iter().flatten().map(|(c, v)| (DState { key: 0, coords: c.clone() }, *v)).collect();
    for _ in 0..rounds {
        let checker = Arc::new(SimpleDominanceChecker::new(GenDom(spec.clone()), 0));
        let barrier = Arc::new(Barrier::new(nthreads));
        let mut handles = vec![];
        for ops in case.threads.iter().cloned() {
            let checker = checker.clone();
            let barrier = barrier.clone();
            handles.push(std::thread::spawn(move || {
                barrier.wait();
                ops.into_iter().map(|(c, v)| checker.is_dominated_or_insert(Arc::new(DState { key: 0, coords: c }), 0, v).dominated).collect::<Vec<bool>>()
            }));
        }
        let verdicts: Vec<Vec<bool>> = handles.into_iter().map(|h| h.join().unwrap()).collect();
        for (ti, vs) in verdicts.iter().enumerate() {
            for (i, dominated) in vs.iter().enumerate() {
                let (c, v) = &case.threads[ti][i];
                let s = DState { key: 0, coords: c.clone() };
                let has_dominator = all.iter().any(|(e, ev)| strictly_dominates(spec, e, *ev, &s, *v));
                if *dominated && !has_dominator {
                    return Verdict::Fail(format!("({:?}, {v}) was reported dominated but no presented entry strictly dominates it", c));
                }
                if !*dominated && has_dominator {
                    // legitimate if the dominator was presented later; but a globally maximal entry must never be dominated (checked above);
                    // nothing to assert here
                }
            }
        }
        // afterwards the store answers like the Pareto front of everything presented
        let mut reference = RefFront::default();
        // the front is order independent as a set: feed the reference sequentially
        for (s, v) in all.iter() {
            reference.query(spec, s, 0, *v);
        }
        for (c, v) in case.probes.iter() {
            let s = DState { key: 0, coords: c.clone() };
            let got = checker.is_dominated_or_insert(Arc::new(s.clone()), 0, *v).dominated;
            let expect = reference.query(spec, &s, 0, *v);
            if got != expect {
                return Verdict::Fail(format!("after the concurrent phase, probe ({:?}, {v}) is reported dominated = {got} but the Pareto front of all recorded states says {expect}", c));
            }
        }
    }
    Verdict::Pass
}

pub fn def_c18() -> PropDef {
    PropDef {
        id: "C18",
        run: |ctx| {
            // sequential, random
            let cases = ctx.tier.pick(40_000, 400_000);
            let op = prop_oneof![
                10 => (0u8..CACHE_STATES, 0usize..CACHE_DEPTHS, 0isize..3, any::<bool>()).prop_map(|(state, depth, value, explored)| CacheOp::Update { state, depth, value, explored }),
                2 => (0usize..CACHE_DEPTHS).prop_map(CacheOp::ClearLayer),
                1 => Just(CacheOp::Clear),
            ];
            ctx.pt_run("cache-seq-random", cases, prop::collection::vec(op, 1..100).prop_map(|ops| CacheCase { ops }), |c| serde_json::to_value(c).unwrap(), eval_cache);
            // sequential, exhaustive
            let len = ctx.tier.pick(4, 5);
            let alphabet = cache_alphabet();
            let (shard, nshards) = (ctx.shard, ctx.nshards);
            enumerate_seqs(&alphabet, len, shard, nshards, |seq| {
                let case = CacheCase { ops: seq.to_vec() };
                let mut obs = CaseObs::default();
                let v = eval_cache(&case, &mut obs);
                let bad = matches!(v, Verdict::Fail(_));
                ctx.account("cache-seq-exhaustive", obs, || serde_json::to_value(&case).unwrap(), v);
                !bad
            });
            ctx.stats.exhaustive.insert(format!("cache-seq-exhaustive: all update/clear_layer/clear sequences of length {len} over 2 states x 2 depths x 3 values x explored (27 ops), all keys read after every step"), true);
            // concurrent phases (real threads; the OS owns the schedule): few cases, several rounds each
            let cases = ctx.tier.pick(150, 1_500);
            let upd = (0u8..2, 0isize..4, any::<bool>());
            let strat = prop::collection::vec(prop::collection::vec(upd, 1..12), 2..=16).prop_map(|threads| ConcCacheCase { threads });
            ctx.pt_run("cache-concurrent", cases, strat, |c| serde_json::to_value(c).unwrap(), eval_conc_cache);
            let cases = ctx.tier.pick(150, 1_500);
            let strat = (1usize..=2, any::<bool>()).prop_flat_map(|(dims, use_value)| {
                let e = (prop::collection::vec(0i8..=2, dims), 0isize..=2);
                (prop::collection::vec(prop::collection::vec(e.clone(), 1..8), 2..=16), prop::collection::vec(e, 1..10)).prop_map(move |(threads, probes)| ConcDomCase { spec: GenDomSpec { dims, use_value, key_mode: 0 }, threads, probes })
            });
            ctx.pt_run("dominance-concurrent", cases, strat, |c| serde_json::to_value(c).unwrap(), eval_conc_dom);
        },
        replay: |part, case, _| match part {
            "cache-concurrent" => match decode::<ConcCacheCase>(case) {
                Ok(c) => {
                    for _ in 0..50 {
                        let v = eval_conc_cache(&c, &mut CaseObs::default());
                        if !matches!(v, Verdict::Pass) {
                            return v;
                        }
                    }
                    Verdict::Pass
                }
                Err(v) => v,
            },
            "dominance-concurrent" => match decode::<ConcDomCase>(case) {
                Ok(c) => {
                    for _ in 0..50 {
                        let v = eval_conc_dom(&c, &mut CaseObs::default());
                        if !matches!(v, Verdict::Pass) {
                            return v;
                        }
                    }
                    Verdict::Pass
                }
                Err(v) => v,
            },
            _ => match decode::<CacheCase>(case) {
                Ok(c) => eval_cache(&c, &mut CaseObs::default()),
                Err(v) => v,
            },
        },
        meta: || EvidenceMeta {
            rule: "sequential: sequences of update_threshold / clear_layer / clear on SimpleCache (bounded-exhaustive over 27 ops, random up to length 100 over 3 states x 3 depths) with ALL keys read after every step and compared with a reference map holding the max in (value, explored) order; must_explore compared with its documented formula; EmptyCache must always answer None / true. concurrent (real threads released by a barrier, 2..16 threads, several rounds per case): update-only phases on 2 keys - final content must equal the max of all updates, every value read must have been written by somebody, must be >= the reader's own update and never decrease; dominance store hammered on one key - a dominated verdict needs a strict dominator among the presented entries, and afterwards a generated probe sequence must be answered exactly like the Pareto front of everything presented. Non-trivial = sequence that updates a key twice and clears a non-empty layer / concurrent case in which >= 2 threads touch the same key; distinct = hash of the serialised case.".into(),
            assumptions: vec!["concurrent schedules are the operating system's, not the harness's: dashmap's shard locking cannot be hooked without rewriting library lines; a failure of a concurrent part is reproducible only statistically (the replay re-runs the case 50 x 8 times)".into()],
        },
    }
}
