//! C05 (sequential part) and C19: every cut-off point of the sequential solver (DESIGN §7)
use crate::infra::*;
use crate::model::*;
use crate::run::*;
use crate::wrap::Ev;

/// (state, depth, value, ub) of the pops of a recorded run
fn pops(log: &[(u32, Ev<St>)]) -> Vec<(St, usize, isize, isize)> {
    log.iter()
        .filter_map(|(_, e)| match e {
            Ev::Pop { state, depth, value, ub, .. } => Some((state.clone(), *depth, *value, *ub)),
            _ => None,
        })
        .collect()
}

/// Enumerates EVERY poll index k of the cutoff for one (instance, configuration).
/// `prop` selects the oracle: C05 (bounds sound), C19 (monotone), C02 (solution consistent).
pub fn eval_cutoffs(case: &SolveCase, obs: &mut CaseObs, prop: &str, max_k: usize) -> Verdict {
    let t = &case.t;
    let o = Oracle::new(t);
    if let Err(e) = o.self_check(t) {
        return Verdict::HarnessError(e);
    }
    let full = run_table(t, &o, &case.cfg, &RunOpts { record: prop == "C19", ..Default::default() });
    if full.panic.is_some() || full.exhausted {
        // an uninterrupted run that crashes or does not terminate is C01's business; here it only
        // matters if the property under test promises something about it
        return Verdict::Fail(format!("uninterrupted run failed: {:?}", full));
    }
    let k_full = full.polls;
    case.cfg.labels(obs);
    obs.label(format!(
        "K:{}",
        match k_full {
            0..=2 => "0-2",
            3..=9 => "3-9",
            10..=49 => "10-49",
            50..=199 => "50-199",
            _ => "200+",
        }
    ));
    let opt_or_neg = o.opt.unwrap_or(isize::MIN);
    let case_hash = fxhash::hash64(&serde_json::to_string(case).unwrap());
    let mut prev: Option<(isize, isize)> = None; // (lb, ub) at k-1
    let mut prev_pops: Option<Vec<(St, usize, isize, isize)>> = None;
    let mut strict_change = false;
    let kmax = k_full.min(max_k);
    if kmax < k_full {
        obs.label("K-truncated");
    }
    obs.evals = 0;
    for k in 1..=kmax + 1 {
        let out = run_table(t, &o, &case.cfg, &RunOpts { fire_at: Some(k), record: prop == "C19", ..Default::default() });
        obs.evals += 1;
        if let Some(p) = &out.panic {
            return Verdict::Fail(format!("cutoff at poll {k}: solver panicked: {p}"));
        }
        let c = out.completion.as_ref().unwrap();
        let interrupted = out.fired;
        if k <= k_full && !interrupted {
            return Verdict::HarnessError(format!("cutoff at poll {k} <= K={k_full} did not fire"));
        }
        match prop {
            "C05" => {
                if !(out.lb <= opt_or_neg && opt_or_neg <= out.ub) {
                    return Verdict::Fail(format!("cutoff at poll {k}: bounds [{}, {}] do not contain the true optimum {:?}", out.lb, out.ub, o.opt));
                }
                if let Err(e) = check_solution(t, &out, false, true) {
                    return Verdict::Fail(format!("cutoff at poll {k}: {e}"));
                }
                if c.is_exact && c.best_value != o.opt {
                    return Verdict::Fail(format!("cutoff at poll {k}: is_exact = true but value {:?} is not the optimum {:?}", c.best_value, o.opt));
                }
                if interrupted && out.lb > isize::MIN && out.ub < isize::MAX && out.lb != out.ub {
                    obs.extra_nontrivial.push(fxhash::hash64(&(case_hash, k)));
                    obs.nontrivial = true;
                }
            }
            "C02" => {
                if let Err(e) = check_solution(t, &out, !interrupted, true) {
                    return Verdict::Fail(format!("cutoff at poll {k}: {e}"));
                }
                if interrupted && out.best_solution.is_some() {
                    obs.extra_nontrivial.push(fxhash::hash64(&(case_hash, k)));
                    obs.nontrivial = true;
                }
            }
            _ => {
                // C19
                if let Some((plb, pub_)) = prev {
                    if out.lb < plb {
                        return Verdict::Fail(format!("lower bound decreases from {plb} (cutoff at poll {}) to {} (cutoff at poll {k})", k - 1, out.lb));
                    }
                    if out.ub > pub_ {
                        return Verdict::Fail(format!("upper bound increases from {pub_} (cutoff at poll {}) to {} (cutoff at poll {k})", k - 1, out.ub));
                    }
                    if out.lb != plb || out.ub != pub_ {
                        strict_change = true;
                    }
                }
                if k > k_full {
                    if !c.is_exact || out.lb != opt_or_neg || out.ub != opt_or_neg {
                        return Verdict::Fail(format!("cutoff after the last poll (k={k} > K={k_full}): exact={} lb={} ub={} but the optimum is {:?}", c.is_exact, out.lb, out.ub, o.opt));
                    }
                }
                // harness self-check: the run cut at k is a prefix of the run cut at k+1
                let p = pops(&out.log);
                if let Some(pp) = &prev_pops {
                    if pp.len() > p.len() || pp[..] != p[..pp.len()] {
                        return Verdict::HarnessError(format!("run cut at poll {k} is not an extension of the run cut at poll {}: the metamorphic relation does not apply", k - 1));
                    }
                }
                prev_pops = Some(p);
                prev = Some((out.lb, out.ub));
            }
        }
    }
    if prop == "C19" {
        obs.nontrivial = k_full >= 3 && strict_change;
    }
    Verdict::Pass
}

pub mod c05 {
    use super::*;
    use crate::props::PropDef;
    use serde_json::Value;
    pub fn def() -> PropDef {
        PropDef { id: "C05", run, replay, meta }
    }
    fn meta() -> EvidenceMeta {
        EvidenceMeta {
            rule: "sequential part: cases = (generated instance, configuration); the uninterrupted run is executed once to count its K cutoff polls, then the solver is re-run with the cutoff answering 'stop' from poll k on, for EVERY k in 1..=K+1 (complete enumeration of the crash points of that case); each run is one evaluation. Oracle: lb <= h*-optimum <= ub, the reported solution replays to lb, is_exact only with the optimum. parallel part: (instance, configuration, threads, k, schedule) under the cooperative scheduler (see C03). Non-trivial = the cutoff fired with both bounds finite and different (sequential) / while another worker held a node (parallel); distinct = hash(case, k[, schedule]).".into(),
            assumptions: vec!["models well-formed by construction; independent oracle; the sequential solver is deterministic for a fixed input (checked in C19)".into()],
        }
    }
    fn run(ctx: &mut Ctx) {
        let cases = ctx.tier.pick(3_000, 20_000);
        let max_k = ctx.tier.pick(400, 5_000);
        let strat = solve_case_strategy(GenParams::default_small(), ConfigGen { max_width: 3, ..Default::default() });
        ctx.pt_run("seq-every-poll", cases, strat, |c| serde_json::to_value(c).unwrap(), |c, obs| eval_cutoffs(c, obs, "C05", max_k));
        ctx.stats.exhaustive.insert("seq-every-poll: every poll index 1..=K+1 of each generated (instance, configuration)".into(), true);
        crate::props::par::run_c05_parallel(ctx);
        // larger searches (10..=16 item knapsacks, 11..=15 item set packing), sequential and with 2-4 real
        // threads: K is in the hundreds or thousands there, so the cutoff fires at a sample of poll indices
        if ctx.stats.violations.is_empty() {
            use crate::families::*;
            use crate::props::fam::*;
            use proptest::prelude::*;
            let cases = ctx.tier.pick(400, 5_000);
            let strat = (fam_case_strategy(vec![10, 11], vec![DdKind::Lel, DdKind::Frontier, DdKind::Pooled], false), prop_oneof![2 => Just(None), 1 => (2usize..=4).prop_map(Some)], prop::collection::vec(any::<u16>(), 6)).prop_map(|(mut case, threads, picks)| {
                case.threads = threads;
                FamCutCase { case, picks }
            });
            ctx.pt_run("large-families-sampled-polls", cases, strat, |c| serde_json::to_value(c).unwrap(), eval_family_cutoffs);
        }
    }
    fn replay(part: &str, case: &Value, known: &KnownFindings) -> Verdict {
        if part == "large-families-sampled-polls" {
            return match serde_json::from_value::<crate::props::fam::FamCutCase>(case.clone()) {
                Ok(c) => crate::props::fam::eval_family_cutoffs(&c, &mut CaseObs::default()),
                Err(e) => Verdict::HarnessError(format!("cannot decode replay case: {e}")),
            };
        }
        if part.starts_with("par") {
            return crate::props::par::replay(part, case, known, "C05");
        }
        if part.starts_with("stress") {
            return crate::props::par::stress_replay(case, "C05");
        }
        match serde_json::from_value::<SolveCase>(case.clone()) {
            Ok(c) => eval_cutoffs(&c, &mut CaseObs::default(), "C05", usize::MAX),
            Err(e) => Verdict::HarnessError(format!("cannot decode replay case: {e}")),
        }
    }
}

pub mod c19 {
    use super::*;
    use crate::props::PropDef;
    use serde_json::Value;
    pub fn def() -> PropDef {
        PropDef { id: "C19", run, replay, meta }
    }
    fn meta() -> EvidenceMeta {
        EvidenceMeta {
            rule: "cases = (generated instance, configuration); the sequential solver is run with the cutoff firing at poll k for every k in 1..=K+1 (K = polls of the uninterrupted run; each run is one evaluation) and consecutive runs are compared: lb non-decreasing, ub non-increasing, and the run cut after the last poll is exact with lb = ub = optimum. The relation is only applied after checking that the run cut at k+1 extends the run cut at k (pop logs). Non-trivial = K >= 3 and some bound strictly changes between two consecutive cut-off points; distinct = hash of the serialised case.".into(),
            assumptions: vec!["the sequential solver is deterministic for a fixed input: verified per case by comparing the recorded pop sequences (a mismatch is reported as a harness error, not a violation)".into()],
        }
    }
    fn run(ctx: &mut Ctx) {
        let cases = ctx.tier.pick(2_500, 15_000);
        let max_k = ctx.tier.pick(400, 5_000);
        let strat = solve_case_strategy(GenParams::default_small(), ConfigGen { max_width: 3, ..Default::default() });
        ctx.pt_run("seq-consecutive-polls", cases, strat, |c| serde_json::to_value(c).unwrap(), |c, obs| eval_cutoffs(c, obs, "C19", max_k));
        // re-convergent instances with the duplicate-free fringe (in-place updates of queued entries): the
        // shape needed by seeded change C19-S1, which the uniform part above did not reach
        let cases = ctx.tier.pick(2_500, 15_000);
        let p = GenParams { n: (5, 8), b: (2, 4), nd: (2, 3), embed: None, allow_irrelevance: false, allow_potential: true };
        let strat = solve_case_strategy(p, ConfigGen { max_width: 3, fringe: Some(vec![1]), ..Default::default() });
        ctx.pt_run("seq-consecutive-polls-nodup-reconvergent", cases, strat, |c| serde_json::to_value(c).unwrap(), |c, obs| eval_cutoffs(c, obs, "C19", max_k));
        ctx.stats.exhaustive.insert("seq-consecutive-polls: all consecutive poll indices 1..=K+1 of each generated case".into(), true);
    }
    fn replay(_part: &str, case: &Value, _known: &KnownFindings) -> Verdict {
        match serde_json::from_value::<SolveCase>(case.clone()) {
            Ok(c) => eval_cutoffs(&c, &mut CaseObs::default(), "C19", usize::MAX),
            Err(e) => Verdict::HarnessError(format!("cannot decode replay case: {e}")),
        }
    }
}
