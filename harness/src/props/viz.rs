//! C20 — diagram visualisation is total and faithful (DESIGN §7/C20)
use crate::ddlevel::*;
use crate::dot;
use crate::infra::*;
use crate::model::*;
use crate::props::PropDef;
use crate::run::*;
use crate::wrap::Ev;
use serde_json::Value;
use std::collections::{BTreeMap, BTreeSet};

type ArcKey = (String, usize, isize, String, isize);

/// The state a node label stands for: the created state whose Debug text occurs in the label (longest
/// match). Independent of how the emitter lays the label out (line order, extra fields).
fn state_label(node_label: &str, created: &BTreeSet<String>) -> String {
    created.iter().filter(|c| node_label.contains(c.as_str())).max_by_key(|c| c.len()).cloned().unwrap_or_else(|| node_label.split("\\n").next().unwrap_or("").to_string())
}
/// all the integers occurring in an edge label, in order ("(x3 = 1)\ncost = -2" -> [3, 1, -2])
fn label_integers(l: &str) -> Vec<isize> {
    let b: Vec<char> = l.chars().collect();
    let mut out = vec![];
    let mut i = 0;
    while i < b.len() {
        if b[i].is_ascii_digit() {
            let neg = i > 0 && b[i - 1] == '-';
            let st = i;
            while i < b.len() && b[i].is_ascii_digit() {
                i += 1;
            }
            if let Ok(v) = b[st..i].iter().collect::<String>().parse::<isize>() {
                out.push(if neg { -v } else { v });
            }
        } else {
            i += 1;
        }
    }
    out
}
fn is_subsequence(needle: &[isize], hay: &[isize]) -> bool {
    let mut it = hay.iter();
    needle.iter().all(|n| it.any(|h| h == n))
}

struct Recorded {
    arcs: BTreeMap<ArcKey, usize>,
    created: BTreeSet<String>,
    expected_visible: BTreeSet<String>,
    /// nodes pruned thanks to the (warm) cache: regular nodes of their layer, drawn whatever show_deleted says
    cache_pruned: usize,
}
fn recorded(root: &St, root_value: isize, log: &[(u32, Ev<St>)]) -> Recorded {
    let dbg = |s: &St| format!("{:?}", s);
    let mut arcs: BTreeMap<ArcKey, usize> = BTreeMap::new();
    let mut created = BTreeSet::new();
    let mut visible = BTreeSet::new();
    created.insert(dbg(root));
    visible.insert(dbg(root));
    // longest path value of every state (meaningful when a state identifies a node: depth-embedding states)
    let mut vt: BTreeMap<String, isize> = BTreeMap::new();
    vt.insert(dbg(root), root_value);
    let mut cache_pruned = 0;
    let mut last_nextvar_states: Vec<St> = vec![];
    let mut last_ret: Option<usize> = None;
    for (_, e) in log {
        match e {
            Ev::Transition { dst, .. } => {
                created.insert(dbg(dst));
            }
            Ev::Cost { src, dst, d, ret } => {
                *arcs.entry((dbg(src), d.variable.id(), d.value, dbg(dst), *ret)).or_insert(0) += 1;
                if let Some(v) = vt.get(&dbg(src)).copied() {
                    let e = vt.entry(dbg(dst)).or_insert(isize::MIN);
                    *e = (*e).max(v.saturating_add(*ret));
                }
            }
            Ev::Relax { src, merged, d, ret, .. } => {
                *arcs.entry((dbg(src), d.variable.id(), d.value, dbg(merged), *ret)).or_insert(0) += 1;
                if let Some(v) = vt.get(&dbg(src)).copied() {
                    let e = vt.entry(dbg(merged)).or_insert(isize::MIN);
                    *e = (*e).max(v.saturating_add(*ret));
                }
            }
            Ev::CacheGet { state, ret: Some(th), .. } => {
                // the diagrams keep a node whose value is strictly above the threshold and prune (but keep
                // drawing) the others; the cache is consulted once per node, when its layer is complete
                if let Some(v) = vt.get(&dbg(state)) {
                    if *v <= th.value {
                        visible.insert(dbg(state));
                        cache_pruned += 1;
                    }
                }
            }
            Ev::Merge { out, .. } => {
                created.insert(dbg(out));
            }
            Ev::Rub { state, .. } => {
                visible.insert(dbg(state));
            }
            Ev::NextVar { states, ret, .. } => {
                last_nextvar_states = states.clone();
                last_ret = *ret;
            }
            _ => {}
        }
    }
    if last_ret.is_none() {
        for s in last_nextvar_states.iter() {
            visible.insert(dbg(s));
        }
    }
    Recorded { arcs, created, expected_visible: visible, cache_pruned }
}

struct Parsed {
    ids: BTreeSet<String>,
    labels: BTreeMap<String, String>,
    terminal: bool,
    /// drawn edges between diagram nodes: (source state, destination state, integers of the label)
    arcs: Vec<(String, String, Vec<isize>)>,
}
fn analyse(bits: u8, src: &str, created: &BTreeSet<String>) -> Result<Parsed, String> {
    let g = dot::parse(src).map_err(|e| format!("not a well-formed DOT graph: {e}"))?;
    if !g.directed {
        return Err("not a digraph".into());
    }
    let mut ids = BTreeSet::new();
    let mut labels = BTreeMap::new();
    let mut terminal = false;
    for (id, attrs, has, sub) in g.node_stmts.iter() {
        if *has && sub.is_none() {
            if id == "terminal" {
                if terminal {
                    return Err("terminal declared twice".into());
                }
                terminal = true;
                continue;
            }
            if !ids.insert(id.clone()) {
                return Err(format!("node {id} is declared twice"));
            }
            let l = attrs.get("label").ok_or_else(|| format!("node {id} has no label"))?;
            labels.insert(id.clone(), state_label(l, created));
        }
    }
    for (id, _, has, sub) in g.node_stmts.iter() {
        if !(*has && sub.is_none()) && !ids.contains(id) {
            return Err(format!("cluster / bare statement mentions node {id} which is not declared (config bits {bits})"));
        }
    }
    let mut arcs: Vec<(String, String, Vec<isize>)> = vec![];
    for (a, b, attrs) in g.edges.iter() {
        if b == "terminal" {
            if !terminal {
                return Err(format!("edge {a} -> terminal but terminal is not declared"));
            }
            if !ids.contains(a) {
                return Err(format!("edge {a} -> terminal starts at an undeclared node"));
            }
            continue;
        }
        if !ids.contains(b) {
            return Err(format!("edge {a} -> {b}: destination is not declared although its inbound edges are drawn"));
        }
        let l = attrs.get("label").ok_or_else(|| format!("edge {a} -> {b} has no label"))?;
        let src_label = labels.get(a).cloned().unwrap_or_else(|| format!("?{a}"));
        arcs.push((src_label, labels[b].clone(), label_integers(l)));
    }
    Ok(Parsed { ids, labels, terminal, arcs })
}

pub fn eval(case: &DdCase, obs: &mut CaseObs) -> Verdict {
    let t = &case.t;
    let o = Oracle::new(t);
    let sub = select_sub(t, &case.main.sub);
    let all_bits: Vec<u8> = (0..64).collect();
    let out = run_case(case, &o, true, true, &all_bits);
    obs.label(format!("dd:{:?}", case.dd));
    obs.label(format!("type:{:?}", case.main.ctype));
    if out.panic.is_some() {
        return Verdict::Pass; // compilation failures are C06/C07 business
    }
    if out.best_value.is_none() {
        obs.label("no-terminal-expected");
    }
    obs.nontrivial = out.c.merges >= 1;
    if out.c.merges >= 1 {
        obs.label("merged+deleted");
    }
    obs.evals = 64;
    let root = t.mk_state(sub.depth, 1 << sub.atom);
    let rec = recorded(&root, sub.value, &out.log);
    if case.warm {
        obs.label("warm-stores");
    }
    if rec.cache_pruned > 0 && t.embed_depth && !t.has_irrelevance() {
        obs.label("node-pruned-by-warm-cache");
    }
    let mut parsed: BTreeMap<u8, Parsed> = BTreeMap::new();
    for (bits, r) in out.viz.iter() {
        match r {
            Err(p) => return Verdict::Fail(format!("as_graphviz panicked with configuration bits {bits:06b}: {p}")),
            Ok(s) => match analyse(*bits, s, &rec.created) {
                Ok(p) => {
                    parsed.insert(*bits, p);
                }
                Err(e) => return Verdict::Fail(format!("configuration bits {bits:06b}: {e}\n{s}")),
            },
        }
    }
    // reference = the same diagram with show_deleted = true
    for (bits, p) in parsed.iter() {
        let show_deleted = bits & 16 != 0;
        let full = &parsed[&(bits | 16)];
        if !p.ids.is_subset(&full.ids) {
            return Verdict::Fail(format!("configuration bits {bits:06b} declares nodes that do not exist when deleted nodes are shown"));
        }
        if p.terminal != full.terminal {
            return Verdict::Fail(format!("configuration bits {bits:06b}: terminal drawn = {} but {} with show_deleted", p.terminal, full.terminal));
        }
        // (6) terminal iff the last layer is non empty (static variable order: iff a best value exists)
        if p.terminal != out.best_value.is_some() {
            return Verdict::Fail(format!("configuration bits {bits:06b}: terminal node drawn = {} although the last layer is {} (best_value = {:?})", p.terminal, if out.best_value.is_some() { "non-empty" } else { "empty" }, out.best_value));
        }
        if !(t.embed_depth && !t.has_irrelevance()) {
            // Labels identify nodes only when the state embeds its depth. What can still be decided: every drawn edge
            // must carry the decision and the cost of SOME arc that was really created between two states with these
            // labels (existence, no multiplicities) - with long arcs the inbound arcs of a pooled node branch on
            // different variables, which is exactly where a drawing routine can go wrong (seeded change C20-S3).
            for (sl, dl, ints) in p.arcs.iter() {
                if sl.starts_with('?') {
                    continue; // the source is hidden by the configuration
                }
                let ok = rec.arcs.keys().any(|k| &k.0 == sl && &k.3 == dl && is_subsequence(&[k.1 as isize, k.2, k.4], ints));
                if !ok {
                    return Verdict::Fail(format!("configuration bits {bits:06b}: an edge {sl} -> {dl} is drawn with label numbers {:?} but no arc created between states with these labels has that decision and cost; created arcs there: {:?}", ints, rec.arcs.keys().filter(|k| &k.0 == sl && &k.3 == dl).collect::<Vec<_>>()));
                }
            }
            continue;
        }
        // (4) arcs: every drawn edge must carry the decision and the cost of an arc that was really created
        // between those two states (the three numbers must occur in its label, in that order), and every
        // created arc into a visible node must be drawn
        let mut remaining = rec.arcs.clone();
        for (sl, dl, ints) in p.arcs.iter() {
            let cand = remaining.iter_mut().find(|(k, c)| **c > 0 && &k.0 == sl && &k.3 == dl && is_subsequence(&[k.1 as isize, k.2, k.4], ints));
            match cand {
                Some((_, c)) => *c -= 1,
                None => return Verdict::Fail(format!("configuration bits {bits:06b}: an edge {sl} -> {dl} is drawn with label numbers {:?} but no (remaining) created arc between these states has that decision and cost; created arcs there: {:?}", ints, rec.arcs.iter().filter(|(k, _)| &k.0 == sl && &k.3 == dl).collect::<Vec<_>>())),
            }
        }
        let hidden_labels: BTreeSet<&String> = full.labels.iter().filter(|(id, _)| !p.ids.contains(*id)).map(|(_, l)| l).collect();
        for (k, left) in remaining.iter() {
            if *left == 0 || hidden_labels.contains(&k.3) {
                continue; // (a destination label that also names a hidden node: multiplicity cannot be decided from labels)
            }
            if !p.labels.values().any(|l| *l == k.3) {
                continue;
            }
            return Verdict::Fail(format!("configuration bits {bits:06b}: arc {:?} was created {} time(s) but {left} of them are not drawn", k, rec.arcs[k]));
        }
        // (5) nodes
        if matches!(case.dom, DomMode::None) {
            let declared: BTreeSet<String> = p.labels.values().cloned().collect();
            let expect = if show_deleted { &rec.created } else { &rec.expected_visible };
            if &declared != expect {
                let missing: Vec<_> = expect.difference(&declared).collect();
                let extra: Vec<_> = declared.difference(expect).collect();
                return Verdict::Fail(format!("configuration bits {bits:06b} (show_deleted = {show_deleted}): drawn nodes differ from the nodes of the diagram: missing {:?}, unexpected {:?}", missing, extra));
            }
        }
    }
    Verdict::Pass
}

pub fn def() -> PropDef {
    PropDef {
        id: "C20",
        run: |ctx| {
            // relaxed compilations (merged and deleted nodes) are the interesting ones: three in five
            let types = vec![CType::Exact, CType::Restricted, CType::Relaxed, CType::Relaxed, CType::Relaxed];
            let dds = vec![DdKind::Lel, DdKind::Frontier, DdKind::Pooled];
            // node/arc faithfulness needs labels that identify nodes: depth-embedding states, no long arcs
            let cases = ctx.tier.pick(4_000, 40_000);
            let p = GenParams { n: (1, 6), b: (1, 4), nd: (1, 3), embed: Some(true), allow_irrelevance: false, allow_potential: true };
            ctx.pt_run("faithful", cases, dd_case_strategy(p.clone(), types.clone(), dds.clone()), |c| serde_json::to_value(c).unwrap(), eval);
            // the same after other compilations sharing the cache and the dominance store (nodes pruned by a warm cache)
            let cases = ctx.tier.pick(3_000, 30_000);
            ctx.pt_run("faithful-warm-stores", cases, dd_case_strategy_warm(p, types.clone(), dds.clone()), |c| serde_json::to_value(c).unwrap(), eval);
            // totality / syntax / terminal on everything else (depth-free states, long arcs)
            let cases = ctx.tier.pick(1_500, 20_000);
            let p = GenParams { n: (1, 6), b: (1, 4), nd: (1, 3), embed: Some(false), allow_irrelevance: true, allow_potential: true };
            ctx.pt_run("total", cases, dd_case_strategy(p, types, dds), |c| serde_json::to_value(c).unwrap(), eval);
        },
        replay: |_part: &str, case: &Value, _| match serde_json::from_value::<DdCase>(case.clone()) {
            Ok(c) => eval(&c, &mut CaseObs::default()),
            Err(e) => Verdict::HarnessError(format!("cannot decode replay case: {e}")),
        },
        meta: || EvidenceMeta {
            rule: "cases = diagrams compiled as in C06/C07 (Exact / Restricted / Relaxed, LEL / FRONTIER / Pooled, feasible, infeasible, empty last layer, widths 1..4, with history); as_graphviz is called with ALL 64 combinations of the six configuration flags (64 evaluations per case). Oracle: no panic; the text parses with a DOT parser written from the Graphviz grammar; node ids declared at most once, every edge end-point and cluster member declared (or hidden by show_deleted = false, decided by comparison with the show_deleted = true rendering); terminal drawn iff the diagram has a best value; for depth-embedding states: every drawn edge matches a recorded transition (decision, cost, end-point states) or a recorded relaxed arc, every recorded arc into a visible node is drawn the right number of times, and the drawn node set equals the created states (show_deleted) / the non-deleted ones (otherwise, from the recorded fast_upper_bound calls). Non-trivial = diagram with at least one merge (hence deleted and merged nodes); distinct = hash of the serialised case.".into(),
            assumptions: vec!["Debug strings of the generated state type contain no quote; node faithfulness is only decided for states that embed their depth (otherwise a label does not identify a node)".into()],
        },
    }
}
