//! Further generated model families (DESIGN §3.2-3.4): bounded knapsack, set packing with a
//! dynamic variable order, and a common-subsequence model with long arcs. Each comes with an
//! independent brute-force oracle and an order-independent replay of solutions.
use crate::run::*;
use ddo::*;
use proptest::prelude::*;
use serde::{Deserialize, Serialize};
use std::sync::Arc;

// =============================================================================================
// Knapsack (bounded quantities)
// =============================================================================================
#[derive(Clone, Debug, PartialEq, Eq, Hash, Serialize, Deserialize)]
pub struct Knap {
    pub cap: usize,
    pub profit: Vec<usize>,
    pub weight: Vec<usize>,
    pub qty: Vec<usize>,
    pub use_dominance: bool,
    pub use_rub: bool,
}
#[derive(Clone, Copy, Debug, PartialEq, Eq, Hash)]
pub struct KState {
    pub depth: usize,
    pub capacity: usize,
}
impl Problem for Knap {
    type State = KState;
    fn nb_variables(&self) -> usize {
        self.profit.len()
    }
    fn initial_state(&self) -> KState {
        KState { depth: 0, capacity: self.cap }
    }
    fn initial_value(&self) -> isize {
        0
    }
    fn transition(&self, s: &KState, d: Decision) -> KState {
        KState { depth: s.depth + 1, capacity: s.capacity - self.weight[d.variable.id()] * d.value as usize }
    }
    fn transition_cost(&self, _: &KState, _: &KState, d: Decision) -> isize {
        self.profit[d.variable.id()] as isize * d.value
    }
    fn next_variable(&self, depth: usize, _: &mut dyn Iterator<Item = &KState>) -> Option<Variable> {
        if depth < self.profit.len() {
            Some(Variable(depth))
        } else {
            None
        }
    }
    fn for_each_in_domain(&self, var: Variable, s: &KState, f: &mut dyn DecisionCallback) {
        let i = var.id();
        let max = self.qty[i].min(s.capacity / self.weight[i]);
        for q in (0..=max).rev() {
            f.apply(Decision { variable: var, value: q as isize });
        }
    }
}
pub struct KnapRelax<'a>(pub &'a Knap);
impl Relaxation for KnapRelax<'_> {
    type State = KState;
    fn merge(&self, states: &mut dyn Iterator<Item = &KState>) -> KState {
        let mut depth = 0;
        let mut cap = 0;
        for s in states {
            depth = s.depth;
            cap = cap.max(s.capacity);
        }
        KState { depth, capacity: cap }
    }
    fn relax(&self, _: &KState, _: &KState, _: &KState, _: Decision, cost: isize) -> isize {
        cost
    }
    fn fast_upper_bound(&self, s: &KState) -> isize {
        if !self.0.use_rub {
            return isize::MAX;
        }
        // fractional (LP) bound over the remaining items in ratio order; floor of the fractional part
        let k = self.0;
        let mut items: Vec<usize> = (s.depth..k.profit.len()).collect();
        items.sort_by(|a, b| (k.profit[*b] * k.weight[*a]).cmp(&(k.profit[*a] * k.weight[*b])));
        let mut cap = s.capacity;
        let mut total = 0usize;
        for i in items {
            let full = k.qty[i].min(cap / k.weight[i]);
            total += full * k.profit[i];
            cap -= full * k.weight[i];
            if full < k.qty[i] {
                total += (cap * k.profit[i]) / k.weight[i];
                break;
            }
        }
        total as isize
    }
}
pub struct KnapRank;
impl StateRanking for KnapRank {
    type State = KState;
    fn compare(&self, a: &KState, b: &KState) -> std::cmp::Ordering {
        a.capacity.cmp(&b.capacity)
    }
}
pub struct KnapDom;
impl Dominance for KnapDom {
    type State = KState;
    type Key = usize;
    fn get_key(&self, s: Arc<KState>) -> Option<usize> {
        Some(s.depth)
    }
    fn nb_dimensions(&self, _: &KState) -> usize {
        1
    }
    fn get_coordinate(&self, s: &KState, _: usize) -> isize {
        s.capacity as isize
    }
    fn use_value(&self) -> bool {
        true
    }
}
impl Knap {
    /// independent oracle: capacity DP
    pub fn optimum(&self) -> isize {
        let mut best = vec![0usize; self.cap + 1];
        for i in 0..self.profit.len() {
            let mut next = best.clone();
            for c in 0..=self.cap {
                for q in 1..=self.qty[i] {
                    if q * self.weight[i] <= c {
                        next[c] = next[c].max(best[c - q * self.weight[i]] + q * self.profit[i]);
                    }
                }
            }
            best = next;
        }
        best[self.cap] as isize
    }
    pub fn brute(&self) -> isize {
        fn rec(k: &Knap, i: usize, cap: usize, acc: usize, best: &mut usize) {
            if i == k.profit.len() {
                *best = (*best).max(acc);
                return;
            }
            for q in 0..=k.qty[i] {
                if q * k.weight[i] <= cap {
                    rec(k, i + 1, cap - q * k.weight[i], acc + q * k.profit[i], best);
                }
            }
        }
        let mut b = 0;
        rec(self, 0, self.cap, 0, &mut b);
        b as isize
    }
    pub fn replay(&self, sol: &[Decision]) -> Result<isize, String> {
        let n = self.profit.len();
        let mut seen = vec![false; n];
        let mut w = 0;
        let mut p = 0;
        for d in sol {
            let i = d.variable.id();
            if i >= n || seen[i] {
                return Err(format!("bad or repeated variable {i}"));
            }
            seen[i] = true;
            if d.value < 0 || d.value as usize > self.qty[i] {
                return Err(format!("quantity {} of item {i} out of range", d.value));
            }
            w += self.weight[i] * d.value as usize;
            p += self.profit[i] * d.value as usize;
        }
        if seen.iter().any(|s| !*s) {
            return Err("some item has no decision".into());
        }
        if w > self.cap {
            return Err(format!("total weight {w} exceeds the capacity {}", self.cap));
        }
        Ok(p as isize)
    }
}
/// 10..=16 items (the sizes of the documentation example and beyond): long searches with many open nodes
/// and heavy re-convergence on the remaining capacity
pub fn knap_large_strategy() -> impl Strategy<Value = Knap> {
    (10usize..=16).prop_flat_map(|n| (15usize..=60, prop::collection::vec(0usize..=30, n), prop::collection::vec(1usize..=15, n), prop::collection::vec(1usize..=2, n), any::<bool>(), any::<bool>()).prop_map(|(cap, profit, weight, qty, use_dominance, use_rub)| Knap { cap, profit, weight, qty, use_dominance, use_rub }))
}
pub fn knap_strategy() -> impl Strategy<Value = Knap> {
    (1usize..=7).prop_flat_map(|n| (0usize..=30, prop::collection::vec(0usize..=12, n), prop::collection::vec(1usize..=9, n), prop::collection::vec(1usize..=3, n), any::<bool>(), any::<bool>()).prop_map(|(cap, profit, weight, qty, use_dominance, use_rub)| Knap { cap, profit, weight, qty, use_dominance, use_rub }))
}

// =============================================================================================
// Set packing / independent set with dynamic variable order (depth free states, long arcs)
// =============================================================================================
#[derive(Clone, Debug, PartialEq, Eq, Hash, Serialize, Deserialize)]
pub struct SetPack {
    pub n: usize,
    pub weight: Vec<isize>,
    /// adjacency bitmasks (symmetric, irreflexive)
    pub adj: Vec<u32>,
    /// true: least frequent item of the layer first (as the misp example does), false: lowest id first
    pub least_frequent_first: bool,
    pub use_rub: bool,
}
impl Problem for SetPack {
    type State = u32;
    fn nb_variables(&self) -> usize {
        self.n
    }
    fn initial_state(&self) -> u32 {
        (1u32 << self.n) - 1
    }
    fn initial_value(&self) -> isize {
        0
    }
    fn transition(&self, s: &u32, d: Decision) -> u32 {
        let v = d.variable.id();
        if d.value == 1 {
            s & !(self.adj[v] | (1 << v))
        } else {
            s & !(1 << v)
        }
    }
    fn transition_cost(&self, _: &u32, _: &u32, d: Decision) -> isize {
        if d.value == 1 {
            self.weight[d.variable.id()]
        } else {
            0
        }
    }
    fn next_variable(&self, _depth: usize, layer: &mut dyn Iterator<Item = &u32>) -> Option<Variable> {
        let mut count = vec![0usize; self.n];
        for s in layer {
            for i in 0..self.n {
                if s >> i & 1 == 1 {
                    count[i] += 1;
                }
            }
        }
        let present = (0..self.n).filter(|i| count[*i] > 0);
        if self.least_frequent_first {
            present.min_by_key(|i| (count[*i], *i)).map(Variable)
        } else {
            present.min().map(Variable)
        }
    }
    fn for_each_in_domain(&self, var: Variable, s: &u32, f: &mut dyn DecisionCallback) {
        if s >> var.id() & 1 == 1 {
            f.apply(Decision { variable: var, value: 1 });
        }
        f.apply(Decision { variable: var, value: 0 });
    }
    fn is_impacted_by(&self, var: Variable, s: &u32) -> bool {
        s >> var.id() & 1 == 1
    }
}
pub struct SetPackRelax<'a>(pub &'a SetPack);
impl Relaxation for SetPackRelax<'_> {
    type State = u32;
    fn merge(&self, states: &mut dyn Iterator<Item = &u32>) -> u32 {
        states.fold(0, |a, s| a | s)
    }
    fn relax(&self, _: &u32, _: &u32, _: &u32, _: Decision, cost: isize) -> isize {
        cost
    }
    fn fast_upper_bound(&self, s: &u32) -> isize {
        if !self.0.use_rub {
            return isize::MAX;
        }
        (0..self.0.n).filter(|i| s >> i & 1 == 1).map(|i| self.0.weight[i].max(0)).sum()
    }
}
pub struct SetPackRank;
impl StateRanking for SetPackRank {
    type State = u32;
    fn compare(&self, a: &u32, b: &u32) -> std::cmp::Ordering {
        a.count_ones().cmp(&b.count_ones()).then(a.cmp(b))
    }
}
impl SetPack {
    pub fn optimum(&self) -> isize {
        let mut best = 0isize;
        for sub in 0u32..(1 << self.n) {
            let mut ok = true;
            let mut w = 0;
            for i in 0..self.n {
                if sub >> i & 1 == 1 {
                    if self.adj[i] & sub != 0 {
                        ok = false;
                        break;
                    }
                    w += self.weight[i];
                }
            }
            if ok {
                best = best.max(w);
            }
        }
        best
    }
    /// order independent semantics: chosen items pairwise compatible; value = sum of weights
    pub fn replay(&self, sol: &[Decision]) -> Result<isize, String> {
        let mut seen = vec![false; self.n];
        let mut chosen = 0u32;
        for d in sol {
            let i = d.variable.id();
            if i >= self.n || seen[i] {
                return Err(format!("bad or repeated variable {i}"));
            }
            seen[i] = true;
            match d.value {
                0 => {}
                1 => chosen |= 1 << i,
                v => return Err(format!("value {v} is not in the domain of item {i}")),
            }
        }
        let mut w = 0;
        for i in 0..self.n {
            if chosen >> i & 1 == 1 {
                if self.adj[i] & chosen != 0 {
                    return Err(format!("item {i} is chosen together with a conflicting item"));
                }
                w += self.weight[i];
            }
        }
        Ok(w)
    }
}
pub fn setpack_strategy() -> impl Strategy<Value = SetPack> {
    setpack_strategy_sized(2, 9)
}
/// 11..=15 items: hundreds of sub-problems, states lingering in the pool over many layers
pub fn setpack_large_strategy() -> impl Strategy<Value = SetPack> {
    setpack_strategy_sized(11, 15)
}
pub fn setpack_strategy_sized(lo: usize, hi: usize) -> impl Strategy<Value = SetPack> {
    (lo..=hi).prop_flat_map(|n| {
        (prop::collection::vec(-3isize..=9, n), prop::collection::vec(any::<bool>(), n * n), prop::sample::select(vec![20u8, 50, 80]), any::<bool>(), any::<bool>()).prop_map(move |(weight, e, dens, lff, use_rub)| {
            let mut adj = vec![0u32; n];
            let thr = (dens as usize * n * n) / 100;
            let mut k = 0;
            for i in 0..n {
                for j in (i + 1)..n {
                    // density controlled edge selection (deterministic in the generated booleans)
                    if e[i * n + j] && k < thr {
                        adj[i] |= 1 << j;
                        adj[j] |= 1 << i;
                        k += 1;
                    }
                }
            }
            SetPack { n, weight, adj, least_frequent_first: lff, use_rub }
        })
    })
}

// =============================================================================================
// MiniLcs: common subsequence with long arcs
// =============================================================================================
#[derive(Clone, Debug, PartialEq, Eq, Hash, Serialize, Deserialize)]
pub struct MiniLcs {
    pub strings: Vec<Vec<u8>>,
    pub letters: u8,
    pub use_rub: bool,
}
#[derive(Clone, Debug, PartialEq, Eq, Hash)]
pub struct LState(pub Vec<usize>);
impl MiniLcs {
    fn next_occ(&self, j: usize, from: usize, c: u8) -> Option<usize> {
        (from..self.strings[j].len()).find(|i| self.strings[j][*i] == c)
    }
    /// decision value 0 = skip position k of string 0; value c+1 = match letter c at its next occurrence in every string
    fn step(&self, p: &[usize], k: usize, value: isize) -> Option<(Vec<usize>, isize)> {
        if p[0] > k {
            return if value == 0 { Some((p.to_vec(), 0)) } else { None };
        }
        if value == 0 {
            let mut q = p.to_vec();
            q[0] = k + 1;
            return Some((q, 0));
        }
        let c = (value - 1) as u8;
        if c >= self.letters {
            return None;
        }
        let mut q = vec![];
        for j in 0..self.strings.len() {
            q.push(self.next_occ(j, p[j], c)? + 1);
        }
        Some((q, 1))
    }
    pub fn optimum(&self) -> isize {
        // enumerate the subsequences of the shortest string
        let (si, s) = self.strings.iter().enumerate().min_by_key(|(_, s)| s.len()).unwrap();
        let mut best = 0;
        for mask in 0u32..(1 << s.len()) {
            let sub: Vec<u8> = (0..s.len()).filter(|i| mask >> i & 1 == 1).map(|i| s[i]).collect();
            if sub.len() <= best {
                continue;
            }
            let common = self.strings.iter().enumerate().all(|(j, t)| {
                if j == si {
                    return true;
                }
                let mut it = t.iter();
                sub.iter().all(|c| it.any(|x| x == c))
            });
            if common {
                best = sub.len();
            }
        }
        best as isize
    }
    pub fn replay(&self, sol: &[Decision]) -> Result<isize, String> {
        let n = self.strings[0].len();
        let mut seen = vec![false; n];
        for d in sol {
            if d.variable.id() >= n || seen[d.variable.id()] {
                return Err(format!("bad or repeated variable {}", d.variable.id()));
            }
            seen[d.variable.id()] = true;
        }
        let mut p = vec![0usize; self.strings.len()];
        let mut v = 0;
        for k in 0..n {
            match sol.iter().find(|d| d.variable.id() == k) {
                Some(d) => match self.step(&p, k, d.value) {
                    Some((q, c)) => {
                        p = q;
                        v += c;
                    }
                    None => return Err(format!("decision x{k} = {} is not feasible at positions {:?}", d.value, p)),
                },
                None => {
                    if p[0] <= k {
                        return Err(format!("no decision for variable {k} although the state {:?} is impacted by it", p));
                    }
                }
            }
        }
        Ok(v)
    }
}
impl Problem for MiniLcs {
    type State = LState;
    fn nb_variables(&self) -> usize {
        self.strings[0].len()
    }
    fn initial_state(&self) -> LState {
        LState(vec![0; self.strings.len()])
    }
    fn initial_value(&self) -> isize {
        0
    }
    fn transition(&self, s: &LState, d: Decision) -> LState {
        LState(self.step(&s.0, d.variable.id(), d.value).expect("transition on a decision outside the domain").0)
    }
    fn transition_cost(&self, s: &LState, _: &LState, d: Decision) -> isize {
        self.step(&s.0, d.variable.id(), d.value).expect("cost of a decision outside the domain").1
    }
    fn next_variable(&self, depth: usize, _: &mut dyn Iterator<Item = &LState>) -> Option<Variable> {
        if depth < self.strings[0].len() {
            Some(Variable(depth))
        } else {
            None
        }
    }
    fn for_each_in_domain(&self, var: Variable, s: &LState, f: &mut dyn DecisionCallback) {
        for v in 0..=(self.letters as isize) {
            if self.step(&s.0, var.id(), v).is_some() {
                f.apply(Decision { variable: var, value: v });
            }
        }
    }
    fn is_impacted_by(&self, var: Variable, s: &LState) -> bool {
        s.0[0] <= var.id()
    }
}
pub struct LcsRelax<'a>(pub &'a MiniLcs);
impl Relaxation for LcsRelax<'_> {
    type State = LState;
    fn merge(&self, states: &mut dyn Iterator<Item = &LState>) -> LState {
        let mut it = states;
        let mut m = it.next().unwrap().0.clone();
        for s in it {
            for j in 0..m.len() {
                m[j] = m[j].min(s.0[j]);
            }
        }
        LState(m)
    }
    fn relax(&self, _: &LState, _: &LState, _: &LState, _: Decision, cost: isize) -> isize {
        cost
    }
    fn fast_upper_bound(&self, s: &LState) -> isize {
        if !self.0.use_rub {
            return isize::MAX;
        }
        (0..s.0.len()).map(|j| self.0.strings[j].len().saturating_sub(s.0[j])).min().unwrap() as isize
    }
}
pub struct LcsRank;
impl StateRanking for LcsRank {
    type State = LState;
    fn compare(&self, a: &LState, b: &LState) -> std::cmp::Ordering {
        // fewer consumed characters is more promising; total order on distinct states
        let sa: usize = a.0.iter().sum();
        let sb: usize = b.0.iter().sum();
        sb.cmp(&sa).then(b.0.cmp(&a.0))
    }
}
/// 2-3 strings of 5..=9 letters
pub fn lcs_large_strategy() -> impl Strategy<Value = MiniLcs> {
    (2u8..=4, 2usize..=3).prop_flat_map(|(letters, m)| (prop::collection::vec(prop::collection::vec(0u8..letters, 5..=9), m), any::<bool>()).prop_map(move |(strings, use_rub)| MiniLcs { strings, letters, use_rub }))
}
pub fn lcs_strategy() -> impl Strategy<Value = MiniLcs> {
    (2u8..=3, 2usize..=3).prop_flat_map(|(letters, m)| (prop::collection::vec(prop::collection::vec(0u8..letters, 1..=5), m), any::<bool>()).prop_map(move |(strings, use_rub)| MiniLcs { strings, letters, use_rub }))
}

// =============================================================================================
// uniform entry point
// =============================================================================================
#[derive(Clone, Debug, PartialEq, Eq, Hash, Serialize, Deserialize)]
pub enum Family {
    Knap(Knap),
    SetPack(SetPack),
    Lcs(MiniLcs),
}
#[derive(Clone, Debug, PartialEq, Eq, Hash, Serialize, Deserialize)]
pub struct FamCase {
    pub fam: Family,
    pub dd: DdKind,
    pub cache: CacheKind,
    pub fringe: FringeKind,
    pub width: WidthKind,
    pub threads: Option<usize>,
}
pub struct FamOut {
    pub opt: Option<isize>,
    pub out: RunOutG<()>,
    pub solution_check: Result<(), String>,
    pub oracle_check: Result<(), String>,
}
fn strip<S>(o: RunOutG<S>) -> RunOutG<()> {
    RunOutG { panic: o.panic, completion: o.completion, best_value: o.best_value, best_solution: o.best_solution, lb: o.lb, ub: o.ub, explored: o.explored, gap: o.gap, polls: o.polls, fired: o.fired, exhausted: o.exhausted, self_enqueue: o.self_enqueue, log: vec![], c: o.c, watchdog: o.watchdog }
}
pub fn run_family(case: &FamCase, opts: &RunOpts) -> FamOut {
    let mut opts = opts.clone();
    opts.threads = case.threads;
    let uninterrupted = opts.fire_at.is_none();
    match &case.fam {
        Family::Knap(k) => {
            let opt = k.optimum();
            let oracle_check = if k.profit.len() <= 6 && opt != k.brute() { Err(format!("knapsack oracles disagree: {} vs {}", opt, k.brute())) } else { Ok(()) };
            let rlx = KnapRelax(k);
            let dom: Box<dyn DominanceChecker<State = KState> + Send + Sync> = if k.use_dominance { Box::new(SimpleDominanceChecker::new(KnapDom, k.profit.len())) } else { Box::new(EmptyDominanceChecker::default()) };
            let n = k.profit.len() as u32;
            let budget = 2usize.saturating_mul(n as usize + 1).saturating_mul(8usize.saturating_pow(n + 1)).min(50_000_000);
            let core = Core { pb: k, rlx: &rlx, rank: &KnapRank, dom: dom.as_ref(), n: k.profit.len(), budget };
            let out = run_core(&core, case.dd, case.cache, &case.fringe, &case.width, &opts);
            let solution_check = check_solution_with(&|s| k.replay(s), &out, uninterrupted, true);
            FamOut { opt: Some(opt), out: strip(out), solution_check, oracle_check }
        }
        Family::SetPack(p) => {
            let opt = p.optimum();
            let rlx = SetPackRelax(p);
            let dom = EmptyDominanceChecker::default();
            let budget = 2usize.saturating_mul(p.n + 1).saturating_mul(4usize.saturating_pow(p.n as u32 + 1)).min(50_000_000);
            let core = Core { pb: p, rlx: &rlx, rank: &SetPackRank, dom: &dom, n: p.n, budget };
            let out = run_core(&core, case.dd, case.cache, &case.fringe, &case.width, &opts);
            let solution_check = check_solution_with(&|s| p.replay(s), &out, uninterrupted, true);
            FamOut { opt: Some(opt), out: strip(out), solution_check, oracle_check: Ok(()) }
        }
        Family::Lcs(l) => {
            let opt = l.optimum();
            let rlx = LcsRelax(l);
            let dom = EmptyDominanceChecker::default();
            let n = l.strings[0].len();
            let budget = 2usize.saturating_mul(n + 1).saturating_mul((2 * (l.letters as usize + 1)).saturating_pow(n as u32 + 1)).min(50_000_000);
            let core = Core { pb: l, rlx: &rlx, rank: &LcsRank, dom: &dom, n, budget };
            let out = run_core(&core, case.dd, case.cache, &case.fringe, &case.width, &opts);
            let solution_check = check_solution_with(&|s| l.replay(s), &out, uninterrupted, true);
            FamOut { opt: Some(opt), out: strip(out), solution_check, oracle_check: Ok(()) }
        }
    }
}
pub fn family_name(f: &Family) -> &'static str {
    match f {
        Family::Knap(_) => "knapsack",
        Family::SetPack(_) => "setpack",
        Family::Lcs(_) => "minilcs",
    }
}
pub fn fam_case_strategy(which: Vec<u8>, dds: Vec<DdKind>, parallel: bool) -> impl Strategy<Value = FamCase> {
    // 0..=2: the small families; 10..=12: their large versions
    let fam = prop::sample::select(which).prop_flat_map(|w| match w {
        0 => knap_strategy().prop_map(Family::Knap).boxed(),
        1 => setpack_strategy().prop_map(Family::SetPack).boxed(),
        2 => lcs_strategy().prop_map(Family::Lcs).boxed(),
        10 => knap_large_strategy().prop_map(Family::Knap).boxed(),
        11 => setpack_large_strategy().prop_map(Family::SetPack).boxed(),
        _ => lcs_large_strategy().prop_map(Family::Lcs).boxed(),
    });
    let threads = if parallel { prop_oneof![2 => Just(None), 1 => (1usize..=3).prop_map(Some)].boxed() } else { Just(None).boxed() };
    (fam, config_strategy(ConfigGen { max_width: 3, dd: Some(dds), rub_none_only: true, dom: Some(false), ..Default::default() }), threads).prop_map(|(fam, cfg, threads)| FamCase { fam, dd: cfg.dd, cache: cfg.cache, fringe: cfg.fringe, width: cfg.width, threads })
}
