//! Online protocol monitors over recorded call logs (C12, C13).
use crate::ddlevel::CType;
use crate::model::*;
use crate::wrap::*;
use ddo::*;

/// One compilation, cut out of a (per-thread) event stream.
#[derive(Debug, Clone)]
pub struct Seg {
    pub root_depth: usize,
    pub ctype: Option<CType>,
    /// max_width handed to the compilation
    pub width: usize,
    pub pooled: bool,
    pub evs: Vec<Ev<St>>,
}

/// Splits the event stream of ONE thread of a solver run into compilations. A node starts at a
/// `Width` event (both solvers ask the width heuristic exactly once per processed node, right
/// before the restricted compilation); inside a node a compilation starts at each `NextVar`
/// whose depth equals the depth of the node: the first is the restricted one, the second the relaxed one.
pub fn split_solver_stream(evs: &[Ev<St>], pooled: bool) -> Vec<Seg> {
    let mut segs: Vec<Seg> = vec![];
    let mut node: Option<(usize, usize)> = None; // (depth, width)
    let mut compiles_in_node = 0;
    let mut cur: Option<Seg> = None;
    for e in evs {
        match e {
            Ev::Width { depth, ret, .. } => {
                if let Some(s) = cur.take() {
                    segs.push(s);
                }
                node = Some((*depth, *ret));
                compiles_in_node = 0;
            }
            Ev::NextVar { depth, .. } if node.map_or(false, |(d, _)| d == *depth) => {
                if let Some(s) = cur.take() {
                    segs.push(s);
                }
                let (d, w) = node.unwrap();
                let ctype = if compiles_in_node == 0 { CType::Restricted } else { CType::Relaxed };
                compiles_in_node += 1;
                cur = Some(Seg { root_depth: d, ctype: Some(ctype), width: w, pooled, evs: vec![e.clone()] });
            }
            Ev::Pop { .. } | Ev::Push { .. } | Ev::FringeClear => {
                // solver level events end the current compilation
                if let Some(s) = cur.take() {
                    segs.push(s);
                }
            }
            _ => {
                if let Some(s) = cur.as_mut() {
                    s.evs.push(e.clone());
                }
            }
        }
    }
    if let Some(s) = cur.take() {
        segs.push(s);
    }
    segs
}

#[derive(Default, Debug, Clone)]
pub struct ProtoStats {
    pub layers: usize,
    pub domains: usize,
    pub costs: usize,
    pub relaxes: usize,
    /// relax calls with dst != merged and relaxed cost != cost
    pub interesting_relaxes: usize,
    pub merges: usize,
    /// layers with more created states than the width
    pub wide_layers: usize,
    pub max_expanded: usize,
}

fn domain_of(t: &TableDP, var: usize, s: &St) -> Vec<isize> {
    let mut v = vec![];
    t.for_each_in_domain(Variable(var), s, &mut |d: Decision| v.push(d.value));
    v
}

/// C12: checks the coherence of every call into user code within one compilation.
/// C13 (when `check_width`): at most `width` states expanded per layer (restricted: every layer;
/// relaxed: every layer but the root layer and the first layer below it).
pub fn check_segment(t: &TableDP, seg: &Seg, check_width: bool) -> Result<ProtoStats, String> {
    let mut st = ProtoStats::default();
    let mut expected_depth = seg.root_depth;
    let mut layer_states: Vec<St> = vec![];
    let mut layer_var: Option<usize> = None;
    let mut layer_index = 0usize; // 0 = root layer
    let mut prev_layer_var: Option<usize> = None;
    let mut prev_expanded: Vec<St> = vec![]; // states expanded in the previous layer (sources of arcs into this layer)
    let mut expanded: Vec<St> = vec![];
    let mut all_expanded: Vec<(St, Option<usize>)> = vec![]; // (state, variable it was expanded on), all earlier layers
    let mut merged: Option<(Vec<St>, St)> = None; // last merge of the current layer
    let mut cur_domain: Option<(St, Vec<isize>)> = None;
    // every domain enumerated in the current layer: (state, values)
    let mut layer_domains: Vec<(St, Vec<isize>)> = vec![];
    // every transition computed in the current layer
    let mut layer_transitions: Vec<(St, Decision, St)> = vec![];
    let mut last_transition: Option<(St, Decision, St)> = None;
    let mut impacted_true: Vec<St> = vec![];
    let mut seen_first = false;
    for e in seg.evs.iter() {
        match e {
            Ev::NextVar { depth, states, ret } => {
                if *depth != expected_depth {
                    return Err(format!("next_variable called with depth {depth}, expected {expected_depth} (root depth {} + {} layers)", seg.root_depth, expected_depth - seg.root_depth));
                }
                if seen_first {
                    // close the previous layer
                    if check_width && !t.has_irrelevance() {
                        let limited = match seg.ctype {
                            Some(CType::Restricted) => true,
                            Some(CType::Relaxed) => layer_index >= 2,
                            _ => false,
                        };
                        if limited && expanded.len() > seg.width.max(1) {
                            return Err(format!("{} states expanded in layer {} (depth {}) of a {:?} compilation with max_width {}", expanded.len(), layer_index, expected_depth - 1, seg.ctype, seg.width));
                        }
                    }
                    st.max_expanded = st.max_expanded.max(expanded.len());
                    for s in expanded.iter() {
                        all_expanded.push((s.clone(), layer_var));
                    }
                    prev_expanded = std::mem::take(&mut expanded);
                    prev_layer_var = layer_var;
                    layer_index += 1;
                }
                seen_first = true;
                expected_depth += 1;
                st.layers += 1;
                if states.len() > seg.width {
                    st.wide_layers += 1;
                }
                layer_states = states.clone();
                layer_var = *ret;
                merged = None;
                cur_domain = None;
                last_transition = None;
                layer_domains.clear();
                layer_transitions.clear();
                impacted_true.clear();
            }
            Ev::Impacted { var, state, ret } => {
                if Some(*var) != layer_var {
                    return Err(format!("is_impacted_by asked for variable {var} but next_variable selected {:?}", layer_var));
                }
                if !layer_states.contains(state) {
                    return Err(format!("is_impacted_by asked for a state {:?} which is not in the current layer/pool", state));
                }
                if *ret {
                    impacted_true.push(state.clone());
                }
            }
            Ev::Domain { var, state, decisions } => {
                st.domains += 1;
                if Some(*var) != layer_var {
                    return Err(format!("for_each_in_domain called for variable {var} but next_variable selected {:?} for this layer", layer_var));
                }
                let is_merged = merged.as_ref().map_or(false, |(_, m)| m == state);
                if !layer_states.contains(state) && !is_merged {
                    return Err(format!("for_each_in_domain called for state {:?} which is neither a state of the current layer {:?} nor the merged state", state, layer_states));
                }
                if seg.pooled && !is_merged && !impacted_true.contains(state) {
                    return Err(format!("pooled dd expands state {:?} although is_impacted_by did not answer true for it", state));
                }
                if !expanded.contains(state) {
                    expanded.push(state.clone());
                }
                cur_domain = Some((state.clone(), decisions.clone()));
                layer_domains.push((state.clone(), decisions.clone()));
                last_transition = None;
            }
            Ev::Transition { src, d, dst } => {
                // the property constrains WHAT is passed, not the order in which the library interleaves
                // its calls: d must have been emitted by the domain callback for (layer variable, src)
                if Some(d.variable.id()) != layer_var {
                    return Err(format!("transition called with a decision on variable {} but next_variable selected {:?} for this layer", d.variable.id(), layer_var));
                }
                if !layer_domains.iter().any(|(s, ds)| s == src && ds.contains(&d.value)) {
                    return Err(format!("transition({:?}, {:?}) called although that decision was not emitted by the domain callback for this state in this layer (enumerated: {:?})", src, d, layer_domains.iter().filter(|(s, _)| s == src).collect::<Vec<_>>()));
                }
                layer_transitions.push((src.clone(), *d, dst.clone()));
                last_transition = Some((src.clone(), *d, dst.clone()));
            }
            Ev::Cost { src, dst, d, .. } => {
                st.costs += 1;
                let expect = t.transition(src, *d);
                if expect != *dst {
                    return Err(format!("transition_cost(src={:?}, dst={:?}, {:?}) but transition(src, d) = {:?}", src, dst, d, expect));
                }
                if Some(d.variable.id()) != layer_var || !layer_domains.iter().any(|(s, ds)| s == src && ds.contains(&d.value)) {
                    return Err(format!("transition_cost called with decision {:?} which is not in the domain enumerated for {:?} in this layer", d, src));
                }
            }
            Ev::Merge { inputs, out } => {
                st.merges += 1;
                if inputs.len() < 2 {
                    return Err(format!("merge called on {} state(s)", inputs.len()));
                }
                for i in inputs {
                    if !layer_states.contains(i) {
                        return Err(format!("merge called on state {:?} which is not in the current layer {:?}", i, layer_states));
                    }
                }
                merged = Some((inputs.clone(), out.clone()));
            }
            Ev::Relax { src, dst, merged: m, d, cost, ret } => {
                st.relaxes += 1;
                let (inputs, out) = match &merged {
                    Some(x) => x,
                    None => return Err("relax called although merge was not called for this layer".into()),
                };
                if m != out {
                    return Err(format!("relax called with merged state {:?} but the state just returned by merge is {:?}", m, out));
                }
                if !inputs.contains(dst) {
                    return Err(format!("relax called with dst {:?} which is not among the merged states {:?}", dst, inputs));
                }
                let expect = t.transition(src, *d);
                if expect != *dst {
                    return Err(format!("relax(src={:?}, dst={:?}, .., {:?}) but transition(src, d) = {:?}", src, dst, d, expect));
                }
                if seg.pooled {
                    // long arcs: the arc may leave a node expanded several layers ago
                    if !all_expanded.contains(&(src.clone(), Some(d.variable.id()))) {
                        return Err(format!("relax called for an arc {:?} --{:?}--> which was never created (src was not expanded on that variable)", src, d));
                    }
                } else if Some(d.variable.id()) != prev_layer_var {
                    return Err(format!("relax called with a decision on variable {} but the arcs entering this layer decide variable {:?}", d.variable.id(), prev_layer_var));
                }
                if !domain_of(t, d.variable.id(), src).contains(&d.value) {
                    return Err(format!("relax called with decision {:?} which is not in the domain of its variable at src {:?}", d, src));
                }
                if !seg.pooled && !prev_expanded.contains(src) {
                    return Err(format!("relax called with src {:?} which was not expanded in the previous layer", src));
                }
                let c = t.transition_cost(src, dst, *d);
                if c != *cost {
                    return Err(format!("relax called with cost {cost} but the cost of arc {:?} --{:?}--> {:?} is {c}", src, d, dst));
                }
                if dst != m && ret != cost {
                    st.interesting_relaxes += 1;
                }
            }
            _ => {}
        }
    }
    st.max_expanded = st.max_expanded.max(expanded.len());
    if check_width && !t.has_irrelevance() && seen_first {
        let limited = match seg.ctype {
            Some(CType::Restricted) => true,
            Some(CType::Relaxed) => layer_index >= 2,
            _ => false,
        };
        if limited && expanded.len() > seg.width.max(1) {
            return Err(format!("{} states expanded in the last expanded layer (index {}) of a {:?} compilation with max_width {}", expanded.len(), layer_index, seg.ctype, seg.width));
        }
    }
    Ok(st)
}

pub fn thread_streams(log: &[(u32, Ev<St>)]) -> Vec<Vec<Ev<St>>> {
    let mut tags: Vec<u32> = vec![];
    for (t, _) in log {
        if !tags.contains(t) {
            tags.push(*t);
        }
    }
    tags.iter().map(|t| log.iter().filter(|(x, _)| x == t).map(|(_, e)| e.clone()).collect()).collect()
}
