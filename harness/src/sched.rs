//! Cooperative scheduler owning the interleaving of the parallel solver's workers (DESIGN §6).
//!
//! At most one worker runs at any time. Yield points: every `CriticalEnter` (reached before the
//! mutex is requested), `BeforeWait`, `WorkerExit`, plus - through the public traits - cutoff
//! polls, cache accesses and dominance checks when fine-grained yields are requested.
//! The whole run is a pure function of (instance, configuration, thread count, schedule).
use crate::model::*;
use crate::run::*;
use ddo::verif_hooks::{self, Event};
use serde::{Deserialize, Serialize};
use std::cell::Cell;
use std::sync::atomic::{AtomicUsize, Ordering as AO};
use std::sync::mpsc::{channel, Sender};
use std::sync::{Arc, Condvar, Mutex};
use std::time::Duration;

#[derive(Clone, Copy, PartialEq, Eq, Debug)]
pub enum WStat {
    NotStarted,
    Ready,
    Running,
    Parked,
    Exited,
}

#[derive(Clone, Debug, PartialEq, Eq, Hash, Serialize, Deserialize)]
pub enum SchedSpec {
    /// one byte per decision point, mapped monotonically on the candidates (candidate 0 = the
    /// default = keep the previous worker if it is runnable, else the lowest id); after the last
    /// byte: always the default
    Bytes(Vec<u8>),
    /// explicit candidate indices (systematic enumeration); after the last entry: the default
    Explicit(Vec<usize>),
    /// PCT style: run the runnable worker of highest priority; at the given decision indices
    /// the running worker's priority drops below all others
    Pct { prios: Vec<u8>, changes: Vec<u16> },
}

#[derive(Clone, Debug, PartialEq, Eq)]
pub struct Choice {
    pub ncands: usize,
    pub chosen: usize,
    /// was the default candidate (index 0) the previously running worker (i.e. a deviation is a pre-emption)
    pub default_is_prev: bool,
}

#[derive(Clone, Debug, PartialEq, Eq)]
pub enum Stuck {
    /// no runnable worker while some worker is parked (and never will be woken)
    Deadlock(Vec<WStat>),
    /// step bound exceeded
    StepLimit(usize),
}

pub struct Inner {
    pub n: usize,
    pub status: Vec<WStat>,
    pub current: Option<usize>,
    pub spec: SchedSpec,
    pub pos: usize,
    pub prios: Vec<i64>,
    pub choices: Vec<Choice>,
    pub trace: Vec<(usize, &'static str, &'static str)>,
    pub stuck: Option<Stuck>,
    pub worker_panicked: bool,
    pub steps: usize,
    pub max_steps: usize,
    pub started: usize,
    /// C04(c) monitor
    pub in_flight: i64,
    pub complete_with_open_work: Option<String>,
    /// mutual exclusion monitor
    pub in_critical: Option<usize>,
    pub mutex_violation: bool,
    /// statistics for non-triviality
    pub parks: usize,
    pub resumes_after_park: usize,
    pub workitems_by_worker: Vec<usize>,
    pub interleaved_inside_node: bool,
    pub abort_with_other_in_flight: bool,
    pub holding_node: Vec<bool>,
    pub stuck_tx: Option<Sender<Msg>>,
    /// set once the run has been declared stuck: every worker reaching a hook unwinds (panics) so that its thread ends
    pub release: bool,
    pub monitor_addr: Option<usize>,
    /// AfterNotifyAll events that were not backed by a real notification (waiters still queued)
    pub skipped_notifications: usize,
    /// event-triggered cutoff: (kind, n-th occurrence) -> sets `trigger`
    pub fire_on: Option<(u8, usize)>,
    pub event_counts: [usize; 4],
    pub trigger: Arc<std::sync::atomic::AtomicBool>,
    /// OS thread id of every worker (recorded when it starts)
    pub tids: Vec<Option<u32>>,
    /// bumped by every hook event and yield point: lets the controller see that the run moves on
    pub progress: u64,
    /// workers made Ready by a notification that have not reached a hook since: they execute library
    /// code (they come back from the real condvar holding the mutex) although they do not hold the turn
    pub waking: Vec<bool>,
    /// the turn holder went to sleep outside of any hook (a wait that the hooks do not announce)
    pub silent_parks: usize,
}
pub struct Sched {
    pub m: Mutex<Inner>,
    pub cv: Condvar,
    pub fringe_len: Arc<AtomicUsize>,
}

thread_local! { static WID: Cell<Option<usize>> = Cell::new(None); }

pub enum Msg {
    Done(Box<RunOut>),
    Stuck,
}

impl Sched {
    pub fn new(n: usize, spec: SchedSpec, max_steps: usize) -> Arc<Self> {
        let prios = match &spec {
            SchedSpec::Pct { prios, .. } => (0..n).map(|i| 1000 + *prios.get(i).unwrap_or(&0) as i64).collect(),
            _ => vec![0; n],
        };
        Arc::new(Sched {
            m: Mutex::new(Inner {
                n,
                status: vec![WStat::NotStarted; n],
                current: None,
                spec,
                pos: 0,
                prios,
                choices: vec![],
                trace: vec![],
                stuck: None,
                worker_panicked: false,
                steps: 0,
                max_steps,
                started: 0,
                in_flight: 0,
                complete_with_open_work: None,
                in_critical: None,
                mutex_violation: false,
                parks: 0,
                resumes_after_park: 0,
                workitems_by_worker: vec![0; n],
                interleaved_inside_node: false,
                abort_with_other_in_flight: false,
                holding_node: vec![false; n],
                stuck_tx: None,
                release: false,
                monitor_addr: None,
                skipped_notifications: 0,
                fire_on: None,
                event_counts: [0; 4],
                trigger: Arc::new(std::sync::atomic::AtomicBool::new(false)),
                tids: vec![None; n],
                progress: 0,
                waking: vec![false; n],
                silent_parks: 0,
            }),
            cv: Condvar::new(),
            fringe_len: Arc::new(AtomicUsize::new(0)),
        })
    }

    fn declare_stuck(&self, g: &mut Inner, s: Stuck) {
        if g.stuck.is_none() {
            g.stuck = Some(s);
            if let Some(tx) = &g.stuck_tx {
                let _ = tx.send(Msg::Stuck);
            }
        }
    }

    fn pick_next(&self, g: &mut Inner, prev: Option<usize>) {
        if g.stuck.is_some() {
            return; // nobody is granted the turn any more
        }
        let mut cands: Vec<usize> = (0..g.n).filter(|i| g.status[*i] == WStat::Ready).collect();
        if cands.is_empty() {
            if g.status.iter().any(|s| *s == WStat::Parked) {
                let st = g.status.clone();
                self.declare_stuck(g, Stuck::Deadlock(st));
            }
            return;
        }
        g.steps += 1;
        if g.steps > g.max_steps {
            let s = g.steps;
            self.declare_stuck(g, Stuck::StepLimit(s));
            return;
        }
        // candidate 0 = default
        let default_is_prev = prev.map_or(false, |p| cands.contains(&p));
        if let Some(p) = prev {
            if let Some(ix) = cands.iter().position(|c| *c == p) {
                cands.remove(ix);
                cands.insert(0, p);
            }
        }
        let idx = match &g.spec {
            SchedSpec::Bytes(b) => {
                if g.pos < b.len() {
                    (b[g.pos] as usize * cands.len()) >> 8
                } else {
                    0
                }
            }
            SchedSpec::Explicit(e) => {
                if g.pos < e.len() {
                    e[g.pos].min(cands.len() - 1)
                } else {
                    0
                }
            }
            SchedSpec::Pct { changes, .. } => {
                if let Some(p) = prev {
                    if changes.contains(&(g.pos as u16)) {
                        let low = g.prios.iter().copied().min().unwrap_or(0) - 1;
                        g.prios[p] = low;
                    }
                }
                let mut best = 0;
                for (i, c) in cands.iter().enumerate() {
                    if g.prios[*c] > g.prios[cands[best]] {
                        best = i;
                    }
                }
                best
            }
        };
        g.pos += 1;
        g.choices.push(Choice { ncands: cands.len(), chosen: idx, default_is_prev });
        let chosen = cands[idx];
        if let Some(p) = prev {
            if chosen != p && g.holding_node[p] {
                g.interleaved_inside_node = true;
            }
        }
        g.current = Some(chosen);
        self.cv.notify_all();
    }

    fn wait_turn(&self, mut g: std::sync::MutexGuard<Inner>, i: usize) {
        while g.current != Some(i) {
            if g.release {
                drop(g);
                panic!("verif: run abandoned by the scheduler");
            }
            g = self.cv.wait(g).unwrap();
        }
        g.status[i] = WStat::Running;
    }

    /// a yield point reached by the calling worker
    pub fn yield_point(&self, site: &'static str) {
        let i = match WID.with(|w| w.get()) {
            Some(i) => i,
            None => return, // not a worker thread (e.g. the thread calling maximize)
        };
        let mut g = self.m.lock().unwrap();
        g.progress += 1;
        g.waking[i] = false;
        if site == "fine" && g.in_critical == Some(i) {
            // the worker holds the critical mutex (e.g. the cache is consulted from within
            // get_workload): yielding here would hand the turn to a worker that can only block on it
            return;
        }
        if g.status[i] == WStat::Running {
            g.trace.push((i, "yield", site));
            g.status[i] = WStat::Ready;
            g.current = None;
            self.pick_next(&mut g, Some(i));
        } else {
            // arrives here after having been woken up from the real condvar: it does not
            // consume a scheduling decision, it merely waits to be granted the turn
            g.status[i] = WStat::Ready;
        }
        self.wait_turn(g, i);
    }

    pub fn on_event(&self, e: Event) {
        {
            let g = self.m.lock().unwrap();
            if g.release {
                // unwinding out of a Drop (guard objects) during a panic would abort the process
                let unwinding_event = matches!(e, Event::CriticalExit(_) | Event::WorkerExit { .. });
                drop(g);
                if !unwinding_event && !std::thread::panicking() {
                    panic!("verif: run abandoned by the scheduler");
                }
                return;
            }
        }
        {
            let mut g = self.m.lock().unwrap();
            g.progress += 1;
            if let Some(i) = WID.with(|w| w.get()) {
                // (the notifier itself is not 'waking'; a woken worker reports here when it leaves get_workload)
                if !matches!(e, Event::AfterNotifyAll) {
                    g.waking[i] = false;
                }
            }
        }
        match e {
            Event::Monitor(addr) => {
                self.m.lock().unwrap().monitor_addr = Some(addr);
            }
            Event::WorkerStart(i) => {
                WID.with(|w| w.set(Some(i)));
                let mut g = self.m.lock().unwrap();
                g.tids[i] = current_tid();
                g.status[i] = WStat::Ready;
                g.started += 1;
                if g.started == g.n {
                    self.pick_next(&mut g, None);
                }
                self.wait_turn(g, i);
            }
            Event::WorkerExit { worker: i, panicking } => {
                let mut g = self.m.lock().unwrap();
                let was_current = g.current == Some(i);
                g.status[i] = WStat::Exited;
                if panicking {
                    g.worker_panicked = true;
                }
                g.trace.push((i, if panicking { "exit-panicking" } else { "exit" }, ""));
                if g.in_critical == Some(i) {
                    g.in_critical = None;
                }
                if was_current || g.current.is_none() {
                    g.current = None;
                    self.pick_next(&mut g, None);
                }
                WID.with(|w| w.set(None));
            }
            Event::CriticalEnter(site) => {
                self.yield_point(site);
                let i = WID.with(|w| w.get());
                let mut g = self.m.lock().unwrap();
                if let Some(i) = i {
                    if g.in_critical.is_some() && g.in_critical != Some(i) {
                        g.mutex_violation = true;
                    }
                    g.in_critical = Some(i);
                    g.trace.push((i, "enter", site));
                    if site == "abort_search" {
                        let others = (0..g.n).any(|w| w != i && g.holding_node[w]);
                        if others {
                            g.abort_with_other_in_flight = true;
                        }
                    }
                }
            }
            Event::CriticalExit(site) => {
                let i = WID.with(|w| w.get());
                let mut g = self.m.lock().unwrap();
                if let Some(i) = i {
                    if g.in_critical == Some(i) {
                        g.in_critical = None;
                    }
                    // a worker that was woken up from the condvar leaves get_workload (and drops its
                    // guard) before it is granted the turn again: that event is not ordered w.r.t. the
                    // running worker's events and is kept out of the trace
                    if g.status[i] == WStat::Running {
                        g.trace.push((i, "exit-critical", site));
                    }
                    if site == "notify_node_finished" {
                        g.in_flight -= 1;
                        g.holding_node[i] = false;
                    }
                    let kind = match site {
                        "notify_node_finished" => Some(0usize),
                        "enqueue_cutset" => Some(1),
                        "maybe_update_best" => Some(3),
                        _ => None,
                    };
                    if let Some(k) = kind {
                        g.event_counts[k] += 1;
                        if g.fire_on == Some((k as u8, g.event_counts[k])) {
                            g.trigger.store(true, AO::SeqCst);
                        }
                    }
                }
            }
            Event::BeforeWait => {
                let i = WID.with(|w| w.get()).expect("BeforeWait outside of a worker");
                let mut g = self.m.lock().unwrap();
                g.trace.push((i, "park", ""));
                g.status[i] = WStat::Parked;
                g.parks += 1;
                g.in_critical = None; // the condvar releases the mutex
                g.current = None;
                self.pick_next(&mut g, None);
            }
            Event::AfterNotifyAll => {
                let mut g = self.m.lock().unwrap();
                // Does the event tell the truth? A change of the code under test may make the notification
                // conditional while the (separate, add-only) hook line still fires. parking_lot's Condvar
                // keeps a non-null pointer (to the mutex) exactly while threads are queued on it, and a
                // real notify_all leaves it null. The emitting worker holds the mutex, so nobody can have
                // started to wait in between: if waiters are still queued, no notification happened.
                if let Some(a) = g.monitor_addr {
                    if condvar_has_waiters(a) {
                        g.skipped_notifications += 1;
                        return;
                    }
                }
                let mut woke = 0;
                for w in 0..g.n {
                    if g.status[w] == WStat::Parked {
                        g.status[w] = WStat::Ready;
                        g.waking[w] = true;
                        woke += 1;
                    }
                }
                g.resumes_after_park += woke;
            }
            Event::Workload(i, kind) => {
                let mut g = self.m.lock().unwrap();
                g.trace.push((i, "workload", kind));
                match kind {
                    "workitem" => {
                        g.event_counts[2] += 1;
                        if g.fire_on == Some((2, g.event_counts[2])) {
                            g.trigger.store(true, AO::SeqCst);
                        }
                        g.in_flight += 1;
                        g.workitems_by_worker[i] += 1;
                        g.holding_node[i] = true;
                    }
                    "complete" => {
                        let fl = self.fringe_len.load(AO::SeqCst);
                        if (g.in_flight != 0 || fl != 0) && g.complete_with_open_work.is_none() {
                            g.complete_with_open_work = Some(format!("worker {i} was told the search is complete while {} node(s) are in progress and {} sub-problem(s) are open", g.in_flight, fl));
                        }
                    }
                    _ => {}
                }
            }
        }
    }
}

/// OS id of the calling thread (Linux: /proc/thread-self -> <pid>/task/<tid>)
pub fn current_tid() -> Option<u32> {
    std::fs::read_link("/proc/thread-self").ok().and_then(|p| p.file_name().and_then(|n| n.to_str()).and_then(|n| n.parse().ok()))
}
/// is that thread of this process asleep in the kernel (state 'S': futex wait and the like)? A thread that
/// is merely waiting for a CPU is in state 'R'.
pub fn thread_is_sleeping(tid: u32) -> bool {
    match std::fs::read_to_string(format!("/proc/self/task/{tid}/stat")) {
        Ok(s) => match s.rfind(')') {
            Some(ix) => s[ix + 1..].trim_start().starts_with('S'),
            None => false,
        },
        Err(_) => false,
    }
}
/// non destructive probe: are threads queued on this parking_lot::Condvar ?
/// (parking_lot 0.12: `struct Condvar { state: AtomicPtr<RawMutex> }`, null iff nobody waits; the
/// layout assumption is verified by `condvar_probe_selftest`)
pub fn condvar_has_waiters(addr: usize) -> bool {
    // SAFETY: addr is the address of a live parking_lot::Condvar published by a worker of a solver that is still alive
    let p = unsafe { &*(addr as *const std::sync::atomic::AtomicPtr<()>) };
    !p.load(AO::SeqCst).is_null()
}
pub fn condvar_probe_selftest() -> Result<(), String> {
    if std::mem::size_of::<parking_lot::Condvar>() != std::mem::size_of::<std::sync::atomic::AtomicPtr<()>>() {
        return Err("parking_lot::Condvar does not have the expected layout".into());
    }
    let pair = Arc::new((parking_lot::Mutex::new(false), parking_lot::Condvar::new()));
    let addr = &pair.1 as *const parking_lot::Condvar as usize;
    if condvar_has_waiters(addr) {
        return Err("condvar probe: waiters reported on a fresh condvar".into());
    }
    let p2 = pair.clone();
    let h = std::thread::spawn(move || {
        let mut g = p2.0.lock();
        while !*g {
            p2.1.wait(&mut g);
        }
    });
    // wait (bounded) until the thread is queued
    let mut seen = false;
    for _ in 0..20_000 {
        if condvar_has_waiters(addr) {
            seen = true;
            break;
        }
        std::thread::sleep(Duration::from_micros(100));
    }
    {
        let mut g = pair.0.lock();
        *g = true;
        pair.1.notify_all();
        let after = condvar_has_waiters(addr);
        drop(g);
        let _ = h.join();
        if !seen {
            return Err("condvar probe: a waiting thread was never reported".into());
        }
        if after {
            return Err("condvar probe: waiters still reported right after notify_all".into());
        }
    }
    Ok(())
}

impl Sched {
    /// Disposes of the threads of a run that was declared stuck: every worker blocked in the
    /// scheduler or parked on the solver's monitor is woken up and unwinds at its next hook.
    pub fn release_all(&self) {
        let addr = {
            let mut g = self.m.lock().unwrap();
            g.release = true;
            g.monitor_addr
        };
        self.cv.notify_all();
        if let Some(a) = addr {
            // SAFETY: the address was published by a worker of the solver that is still blocked
            // inside maximize() (the solver outlives its workers), and the harness is built against
            // the very same parking_lot version as the library (shared Cargo.lock).
            let cv = unsafe { &*(a as *const parking_lot::Condvar) };
            cv.notify_all();
        }
    }
}

/// what the scheduler observed during one run
#[derive(Clone, Debug)]
pub struct SchedReport {
    pub stuck: Option<Stuck>,
    pub worker_panicked: bool,
    pub complete_with_open_work: Option<String>,
    pub mutex_violation: bool,
    pub choices: Vec<Choice>,
    pub steps: usize,
    pub parks: usize,
    pub resumes_after_park: usize,
    pub workers_with_nodes: usize,
    pub interleaved_inside_node: bool,
    pub abort_with_other_in_flight: bool,
    pub skipped_notifications: usize,
    pub silent_parks: usize,
    pub trace_hash: u64,
    pub trace_len: usize,
    pub trace_tail: Vec<(usize, &'static str, &'static str)>,
    pub final_status: Vec<WStat>,
}

static RUN_LOCK: Mutex<()> = Mutex::new(());

#[derive(Clone, Debug, PartialEq, Eq, Hash, Serialize, Deserialize)]
pub struct ParCase {
    pub t: TableDP,
    pub cfg: Config,
    pub threads: usize,
    /// Some(k): the builder method with_nb_threads(k) is called after construction
    pub with_nb_threads: Option<usize>,
    pub fire_at: Option<usize>,
    pub fine: bool,
    pub sched: SchedSpec,
    /// warm start: (offset below the optimum, index of the witness)
    pub primal: Option<(isize, usize)>,
    /// event-triggered cutoff: the cutoff answers stop from the first poll after the n-th occurrence of
    /// (0) the end of a notify_node_finished section, (1) of an enqueue_cutset section, (2) a work item
    /// being handed out, (3) the end of a maybe_update_best section
    #[serde(default)]
    pub fire_on: Option<(u8, usize)>,
}

pub enum SchedOutcome {
    Done(Box<RunOut>, SchedReport),
    /// the run did not return (deadlock / step limit); its threads are abandoned
    Stuck(SchedReport),
    /// wall clock watchdog of the harness itself (never a violation)
    HarnessTimeout,
}

/// Executes one scheduled parallel run. One scheduled run at a time per process (the callback is global).
/// set once a scheduled run hit the harness' own wall-clock watchdog: the scheduler no longer models the
/// code under test (e.g. the notification announced by the AfterNotifyAll hook does not happen any more),
/// every later scheduled run of this process is skipped and reported as inconclusive
static SCHED_BROKEN: std::sync::atomic::AtomicBool = std::sync::atomic::AtomicBool::new(false);

pub fn run_scheduled(case: &ParCase, o: &Oracle, primals: Vec<(isize, Vec<ddo::Decision>)>, record: bool) -> SchedOutcome {
    if SCHED_BROKEN.load(AO::SeqCst) {
        return SchedOutcome::HarnessTimeout;
    }
    let _guard = RUN_LOCK.lock().unwrap_or_else(|e| e.into_inner());
    static SELFTEST: std::sync::Once = std::sync::Once::new();
    SELFTEST.call_once(|| {
        if let Err(e) = condvar_probe_selftest() {
            eprintln!("HARNESS-ERROR: {e}");
            SCHED_BROKEN.store(true, AO::SeqCst);
        }
    });
    if SCHED_BROKEN.load(AO::SeqCst) {
        return SchedOutcome::HarnessTimeout;
    }
    let nworkers = case.with_nb_threads.unwrap_or(case.threads);
    // step bound: every step is a critical section, a park, a poll, a cache access or a dominance check;
    // a terminating search makes at most `budget` polls, each layer touches a bounded number of nodes
    let max_steps = (o.budget.saturating_mul(64)).saturating_add(10_000).min(20_000_000);
    let sched = Sched::new(nworkers, case.sched.clone(), max_steps);
    let (tx, rx) = channel::<Msg>();
    sched.m.lock().unwrap().stuck_tx = Some(tx.clone());
    sched.m.lock().unwrap().fire_on = case.fire_on;
    let trigger = sched.m.lock().unwrap().trigger.clone();
    let cb_sched = sched.clone();
    verif_hooks::set_callback(Some(Arc::new(move |e| cb_sched.on_event(e))));
    let y_sched = sched.clone();
    let yield_hook: Arc<dyn Fn() + Send + Sync> = Arc::new(move || y_sched.yield_point("fine"));
    let opts = RunOpts {
        fire_at: case.fire_at,
        record,
        primals,
        threads: Some(case.threads),
        with_nb_threads: case.with_nb_threads,
        yield_hook: Some(yield_hook),
        fine_yields: case.fine,
        stop_on_self_enqueue: false,
        budget: None,
        len_mirror: Some(sched.fringe_len.clone()),
        cut_trigger: if case.fire_on.is_some() { Some(trigger) } else { None },
    };
    let t = case.t.clone();
    let o2 = o.clone();
    let cfg = case.cfg.clone();
    let handle = std::thread::Builder::new()
        .stack_size(8 << 20)
        .spawn(move || {
            let out = run_table(&t, &o2, &cfg, &opts);
            let _ = tx.send(Msg::Done(Box::new(out)));
        })
        .expect("cannot spawn the run thread");
    // The controller. Besides waiting for the end of the run it watches the turn holder: a worker that goes to
    // sleep in the kernel OUTSIDE of any hook (no event, nobody else executing library code, thread state 'S' on
    // several consecutive looks) sits in a wait the hooks do not announce - e.g. a new wait site introduced by a
    // change of the code under test. It is then treated exactly like an announced park (the turn moves on, a
    // truthful notification makes it Ready again), so that a lost wake-up there is reported as the deadlock it
    // is instead of stalling the harness until the wall-clock watchdog.
    let t_start = std::time::Instant::now();
    let mut last_progress = u64::MAX;
    let mut sleepy = 0;
    let msg = loop {
        match rx.recv_timeout(Duration::from_millis(15)) {
            Ok(m) => break Ok(m),
            Err(std::sync::mpsc::RecvTimeoutError::Disconnected) => break Err(()),
            Err(std::sync::mpsc::RecvTimeoutError::Timeout) => {
                if t_start.elapsed() > Duration::from_secs(30) {
                    break Err(());
                }
                let mut g = sched.m.lock().unwrap();
                if g.stuck.is_some() || g.release {
                    continue;
                }
                if g.progress != last_progress {
                    last_progress = g.progress;
                    sleepy = 0;
                    continue;
                }
                let holder = g.current.filter(|c| g.status[*c] == WStat::Running);
                match holder {
                    Some(c) if !g.waking.iter().any(|w| *w) && g.tids[c].map_or(false, thread_is_sleeping) => {
                        sleepy += 1;
                        if sleepy >= 4 {
                            sleepy = 0;
                            g.trace.push((c, "silent-park", ""));
                            g.status[c] = WStat::Parked;
                            g.parks += 1;
                            g.silent_parks += 1;
                            if g.in_critical == Some(c) {
                                g.in_critical = None;
                            }
                            g.current = None;
                            sched.pick_next(&mut g, None);
                        }
                    }
                    _ => sleepy = 0,
                }
            }
        }
    };
    let outcome = match msg {
        Ok(Msg::Done(out)) => {
            let _ = handle.join();
            verif_hooks::set_callback(None);
            SchedOutcome::Done(out, report(&sched))
        }
        Ok(Msg::Stuck) => {
            // the run cannot finish any more. Its verdict is settled (report taken now); then its
            // threads are disposed of: they are woken up and unwind at their next hook.
            let rep = report(&sched);
            let mut finished = false;
            for _ in 0..400 {
                sched.release_all();
                if let Ok(Msg::Done(_)) = rx.recv_timeout(Duration::from_millis(25)) {
                    finished = true;
                    break;
                }
            }
            if finished {
                let _ = handle.join();
            }
            verif_hooks::set_callback(None);
            crate::run::take_panics();
            SchedOutcome::Stuck(rep)
        }
        Err(_) => {
            SCHED_BROKEN.store(true, AO::SeqCst);
            sched.release_all();
            verif_hooks::set_callback(None);
            SchedOutcome::HarnessTimeout
        }
    };
    outcome
}

fn report(s: &Arc<Sched>) -> SchedReport {
    let g = s.m.lock().unwrap();
    let tail: Vec<_> = g.trace.iter().rev().take(if std::env::var("VERIF_FULL_TRACE").is_ok() { 100000 } else { 40 }).rev().cloned().collect();
    SchedReport {
        stuck: g.stuck.clone(),
        worker_panicked: g.worker_panicked,
        complete_with_open_work: g.complete_with_open_work.clone(),
        mutex_violation: g.mutex_violation,
        choices: g.choices.clone(),
        steps: g.steps,
        parks: g.parks,
        resumes_after_park: g.resumes_after_park,
        workers_with_nodes: g.workitems_by_worker.iter().filter(|c| **c > 0).count(),
        interleaved_inside_node: g.interleaved_inside_node,
        abort_with_other_in_flight: g.abort_with_other_in_flight,
        skipped_notifications: g.skipped_notifications,
        silent_parks: g.silent_parks,
        trace_hash: fxhash::hash64(&g.trace),
        trace_len: g.trace.len(),
        trace_tail: tail,
        final_status: g.status.clone(),
    }
}

// ---------------------------------------------------------------------------------------------
// Free-running (OS scheduled) parallel runs under a passive observer.
//
// A real-thread run of the parallel solver in which a worker dies (panic) leaves the other workers
// asleep for ever: maximize() never returns and the check would hang. The passive observer turns that
// into a terminating run without owning the schedule: when a worker exits by panic (or, as a last
// resort, when no hook event has been seen for 30 s) every other worker unwinds at its next hook and
// the sleepers are woken up, so that maximize() ends by propagating the panic.
// ---------------------------------------------------------------------------------------------
struct FreeState {
    monitor: Option<usize>,
    release: bool,
    worker_panicked: bool,
    watchdog_fired: bool,
    last_event: std::time::Instant,
    done: bool,
}
#[derive(Clone, Copy, Debug, Default)]
pub struct FreeReport {
    pub worker_panicked: bool,
    pub watchdog_fired: bool,
}
fn kick(addr: Option<usize>) {
    if let Some(a) = addr {
        // SAFETY: see Sched::release_all
        let cv = unsafe { &*(a as *const parking_lot::Condvar) };
        cv.notify_all();
    }
}
pub fn with_free_run<R>(f: impl FnMut() -> R) -> (R, FreeReport) {
    let mut f = f;
    let _guard = RUN_LOCK.lock().unwrap_or_else(|e| e.into_inner());
    let st = Arc::new(Mutex::new(FreeState { monitor: None, release: false, worker_panicked: false, watchdog_fired: false, last_event: std::time::Instant::now(), done: false }));
    let cb_st = st.clone();
    verif_hooks::set_callback(Some(Arc::new(move |e| {
        let mut g = cb_st.lock().unwrap_or_else(|e| e.into_inner());
        g.last_event = std::time::Instant::now();
        match e {
            Event::Monitor(a) => g.monitor = Some(a),
            Event::WorkerExit { panicking: true, .. } => {
                if !g.release {
                    g.worker_panicked = true;
                    g.release = true;
                }
                let m = g.monitor;
                drop(g);
                kick(m);
                return;
            }
            _ => {}
        }
        if g.release {
            let unwinding_event = matches!(e, Event::CriticalExit(_) | Event::WorkerExit { .. });
            let m = g.monitor;
            drop(g);
            kick(m);
            if !unwinding_event && !std::thread::panicking() {
                panic!("verif: real-thread run abandoned (a worker crashed or the watchdog expired)");
            }
        }
    })));
    let wd_st = st.clone();
    let (done_tx, done_rx) = std::sync::mpsc::channel::<()>();
    let wd = std::thread::spawn(move || loop {
        // returns at once when the run is over (the sender is dropped)
        if !matches!(done_rx.recv_timeout(Duration::from_millis(50)), Err(std::sync::mpsc::RecvTimeoutError::Timeout)) {
            return;
        }
        let mut g = wd_st.lock().unwrap_or_else(|e| e.into_inner());
        if g.done {
            return;
        }
        if g.release {
            // keep waking sleepers up until the run is over (a worker may park after the first kick)
            let m = g.monitor;
            drop(g);
            kick(m);
            continue;
        }
        if g.last_event.elapsed() > Duration::from_secs(30) {
            g.watchdog_fired = true;
            g.release = true;
        }
    });
    let r = f();
    let rep = {
        let mut g = st.lock().unwrap_or_else(|e| e.into_inner());
        g.done = true;
        FreeReport { worker_panicked: g.worker_panicked, watchdog_fired: g.watchdog_fired }
    };
    drop(done_tx);
    let _ = wd.join();
    verif_hooks::set_callback(None);
    (r, rep)
}
