//! Running the solvers of the library on TableDP instances under a generated configuration.
use crate::model::*;
use crate::wrap::*;
use ddo::*;
use parking_lot::Mutex;
use proptest::prelude::*;
use serde::{Deserialize, Serialize};
use std::panic::{catch_unwind, AssertUnwindSafe};
use std::sync::atomic::{AtomicBool, AtomicUsize, Ordering as AO};
use std::sync::Arc;

#[derive(Clone, Copy, Debug, PartialEq, Eq, Hash, Serialize, Deserialize)]
pub enum DdKind {
    Lel,
    Frontier,
    Pooled,
}
#[derive(Clone, Copy, Debug, PartialEq, Eq, Hash, Serialize, Deserialize)]
pub enum CacheKind {
    Empty,
    Simple,
}
#[derive(Clone, Debug, PartialEq, Eq, Hash, Serialize, Deserialize)]
pub enum FringeKind {
    Simple,
    NoDup,
    TieShuffle(Vec<u8>),
}
#[derive(Clone, Debug, PartialEq, Eq, Hash, Serialize, Deserialize)]
pub enum WidthKind {
    Fixed(usize),
    NbUnassigned,
    TimesFixed(usize, usize),
    DivByNbUnassigned(usize),
}
#[derive(Clone, Debug, PartialEq, Eq, Hash, Serialize, Deserialize)]
pub struct Config {
    pub dd: DdKind,
    pub cache: CacheKind,
    pub fringe: FringeKind,
    pub width: WidthKind,
    pub rub: RubMode,
    pub dom: DomMode,
    pub rank: RankMode,
}
impl Config {
    pub fn cell(&self) -> String {
        format!(
            "{:?}/{:?}/{}/{}",
            self.dd,
            self.cache,
            match self.fringe {
                FringeKind::Simple => "Simple",
                FringeKind::NoDup => "NoDup",
                FringeKind::TieShuffle(_) => "TieShuffle",
            },
            if matches!(self.dom, DomMode::None) { "nodom" } else { "dom" }
        )
    }
    pub fn labels(&self, obs: &mut crate::infra::CaseObs) {
        obs.label(format!("cfg:{}", self.cell()));
        obs.label(format!(
            "width:{}",
            match self.width {
                WidthKind::Fixed(w) => format!("fixed{}", w.min(5)),
                WidthKind::NbUnassigned => "nbunassigned".into(),
                WidthKind::TimesFixed(..) => "times".into(),
                WidthKind::DivByNbUnassigned(..) => "divby".into(),
            }
        ));
        obs.label(format!(
            "rub:{}",
            match self.rub {
                RubMode::None => "none",
                RubMode::Exact => "exact",
                RubMode::ExactMinInf => "exact-mininf",
                RubMode::Slack(_) => "slack",
            }
        ));
        obs.label(format!(
            "rank:{}",
            match self.rank {
                RankMode::SetAsc => "asc",
                RankMode::SetDesc => "desc",
                RankMode::Hstar => "hstar",
                RankMode::Prio(_) => "prio",
            }
        ));
        obs.label(format!(
            "dom:{}",
            match self.dom {
                DomMode::None => "none",
                DomMode::Exact => "exact",
                DomMode::Weak(_) => "weak",
                DomMode::Keyed { .. } => "keyed",
            }
        ));
    }
}

#[derive(Clone, Debug, Default)]
pub struct ConfigGen {
    pub dd: Option<Vec<DdKind>>,
    pub cache: Option<Vec<CacheKind>>,
    /// allowed fringe kinds: 0 simple, 1 nodup, 2 tie-shuffle
    pub fringe: Option<Vec<u8>>,
    pub max_width: usize,
    pub dom: Option<bool>,
    pub rub_none_only: bool,
    /// only narrow fixed widths (1..=max_width): the search has to branch
    pub narrow_only: bool,
}

pub fn config_strategy(g: ConfigGen) -> impl Strategy<Value = Config> {
    let dds = g.dd.clone().unwrap_or(vec![DdKind::Lel, DdKind::Frontier, DdKind::Pooled]);
    let caches = g.cache.clone().unwrap_or(vec![CacheKind::Empty, CacheKind::Simple]);
    let fr = g.fringe.clone().unwrap_or(vec![0, 1, 2]);
    let maxw = g.max_width.max(1);
    let fringe = (prop::sample::select(fr), prop::collection::vec(any::<u8>(), 0..24)).prop_map(|(k, ch)| match k {
        0 => FringeKind::Simple,
        1 => FringeKind::NoDup,
        _ => FringeKind::TieShuffle(ch),
    });
    let wide = if g.narrow_only { 0 } else { 1 };
    let width = prop_oneof![
        4 => (1..=maxw.min(2)).prop_map(WidthKind::Fixed),
        2 => (1..=maxw).prop_map(WidthKind::Fixed),
        wide => Just(WidthKind::NbUnassigned),
        1 => (0usize..=2, 0usize..=2).prop_map(|(k, w)| WidthKind::TimesFixed(k, w)),
        wide => (1usize..=4).prop_map(WidthKind::DivByNbUnassigned),
    ];
    let rub_none_only = g.rub_none_only;
    let rub = (0u8..8, prop::collection::vec(prop::collection::vec(0isize..=3, BMAX), NMAX + 1)).prop_map(move |(k, s)| {
        if rub_none_only {
            return RubMode::None;
        }
        match k {
            0 | 1 | 2 => RubMode::None,
            3 | 4 => RubMode::Exact,
            5 => RubMode::ExactMinInf,
            _ => RubMode::Slack(s),
        }
    });
    let domsel = g.dom;
    let dom = (0u8..6, prop::collection::vec(0isize..=2, BMAX), 1u32..=2, 0u32..16).prop_map(move |(k, r, m, none_mask)| {
        let k = match domsel {
            Some(false) => 0,
            Some(true) => 3 + k % 3,
            None => k,
        };
        match k {
            0 | 1 | 2 => DomMode::None,
            3 => DomMode::Exact,
            4 => DomMode::Weak(r),
            _ => DomMode::Keyed { m, none_mask: none_mask & (none_mask >> 1) },
        }
    });
    let rank = (0u8..4, prop::collection::vec(0u8..4, 1 << BMAX)).prop_map(|(k, p)| match k {
        0 => RankMode::SetAsc,
        1 => RankMode::SetDesc,
        2 => RankMode::Hstar,
        _ => RankMode::Prio(p),
    });
    (prop::sample::select(dds), prop::sample::select(caches), fringe, width, rub, dom, rank).prop_map(|(dd, cache, fringe, width, rub, dom, rank)| Config { dd, cache, fringe, width, rub, dom, rank })
}

#[derive(Clone, Default)]
pub struct RunOpts {
    /// poll index (1-based) from which the cutoff answers "stop"
    pub fire_at: Option<usize>,
    pub record: bool,
    /// warm start(s), applied in order through set_primal
    pub primals: Vec<(isize, Vec<Decision>)>,
    /// None = sequential solver; Some(k) = parallel solver built with k threads
    pub threads: Option<usize>,
    /// Some(k): call the builder method with_nb_threads(k) afterwards
    pub with_nb_threads: Option<usize>,
    /// yield hook invoked at cutoff polls / cache accesses / dominance checks (scheduled runs)
    pub yield_hook: Option<Arc<dyn Fn() + Send + Sync>>,
    pub fine_yields: bool,
    /// stop the run (through the cutoff) when a sub-problem re-enqueues itself
    pub stop_on_self_enqueue: bool,
    /// override the poll budget (watchdog)
    pub budget: Option<usize>,
    /// mirror of the fringe length readable from a scheduler callback
    pub len_mirror: Option<Arc<AtomicUsize>>,
    /// event-triggered cutoff (set by the scheduler)
    pub cut_trigger: Option<Arc<AtomicBool>>,
}

pub type RunOut = RunOutG<St>;
pub struct RunOutG<S> {
    pub panic: Option<String>,
    pub completion: Option<Completion>,
    pub best_value: Option<isize>,
    pub best_solution: Option<Vec<Decision>>,
    pub lb: isize,
    pub ub: isize,
    pub explored: usize,
    pub gap: f32,
    pub polls: usize,
    pub fired: bool,
    pub exhausted: bool,
    pub self_enqueue: bool,
    pub log: Vec<(u32, Ev<S>)>,
    pub c: CounterVals,
    /// real-thread parallel run that had to be abandoned by the wall-clock watchdog (inconclusive)
    pub watchdog: bool,
}
impl<S> std::fmt::Debug for RunOutG<S> {
    fn fmt(&self, f: &mut std::fmt::Formatter<'_>) -> std::fmt::Result {
        write!(
            f,
            "RunOut{{panic:{:?}, completion:{:?}, best_value:{:?}, lb:{}, ub:{}, explored:{}, polls:{}, fired:{}, exhausted:{}, self_enqueue:{}, sol:{:?}}}",
            self.panic, self.completion, self.best_value, self.lb, self.ub, self.explored, self.polls, self.fired, self.exhausted, self.self_enqueue, self.best_solution
        )
    }
}

pub static PANICS: Mutex<Vec<String>> = Mutex::new(Vec::new());
/// installs a quiet panic hook which remembers the message + location of every panic
pub fn install_panic_hook() {
    std::panic::set_hook(Box::new(|info| {
        let loc = info.location().map(|l| format!("{}:{}", l.file(), l.line())).unwrap_or_default();
        let msg = if let Some(s) = info.payload().downcast_ref::<&str>() {
            s.to_string()
        } else if let Some(s) = info.payload().downcast_ref::<String>() {
            s.clone()
        } else {
            "?".to_string()
        };
        if std::env::var("VERIF_SHOW_PANICS").is_ok() {
            eprintln!("panic at {loc}: {msg}");
        }
        PANICS.lock().push(format!("{msg} @ {loc}"));
    }));
}
pub fn take_panics() -> Vec<String> {
    std::mem::take(&mut *PANICS.lock())
}

struct Raw {
    completion: Completion,
    best_value: Option<isize>,
    best_solution: Option<Vec<Decision>>,
    lb: isize,
    ub: isize,
    explored: usize,
    gap: f32,
}

#[allow(clippy::too_many_arguments)]
fn solve<S, D, C>(
    pb: &(dyn Problem<State = S> + Send + Sync),
    rlx: &(dyn Relaxation<State = S> + Send + Sync),
    rank: &(dyn StateRanking<State = S> + Send + Sync),
    width: &(dyn WidthHeuristic<S> + Send + Sync),
    dom: &(dyn DominanceChecker<State = S> + Send + Sync),
    cut: &(dyn Cutoff + Send + Sync),
    fringe: &mut (dyn Fringe<State = S> + Send + Sync),
    opts: &RunOpts,
) -> Raw
where
    S: StateT,
    D: DecisionDiagram<State = S> + Default,
    C: Cache<State = S> + Default + Send + Sync,
{
    if let Some(threads) = opts.threads {
        let mut s = ParallelSolver::<S, D, C>::custom(pb, rlx, rank, width, dom, cut, fringe, threads);
        if let Some(k) = opts.with_nb_threads {
            s = s.with_nb_threads(k);
        }
        for (v, sol) in opts.primals.iter() {
            s.set_primal(*v, sol.clone());
        }
        let completion = s.maximize();
        Raw { completion, best_value: s.best_value(), best_solution: s.best_solution(), lb: s.best_lower_bound(), ub: s.best_upper_bound(), explored: s.explored(), gap: s.gap() }
    } else {
        let mut s = SequentialSolver::<S, D, C>::custom(pb, rlx, rank, width, dom, cut, fringe);
        for (v, sol) in opts.primals.iter() {
            s.set_primal(*v, sol.clone());
        }
        let completion = s.maximize();
        Raw { completion, best_value: s.best_value(), best_solution: s.best_solution(), lb: s.best_lower_bound(), ub: s.best_upper_bound(), explored: s.explored(), gap: s.gap() }
    }
}

/// what the harness needs from a state type
pub trait StateT: Eq + std::hash::Hash + Clone + std::fmt::Debug + Send + Sync + 'static {}
impl<T: Eq + std::hash::Hash + Clone + std::fmt::Debug + Send + Sync + 'static> StateT for T {}

pub fn make_width<S: 'static>(w: &WidthKind, n: usize) -> Box<dyn WidthHeuristic<S> + Send + Sync> {
    match w {
        WidthKind::Fixed(w) => Box::new(FixedWidth(*w)),
        WidthKind::NbUnassigned => Box::new(NbUnassignedWidth(n)),
        WidthKind::TimesFixed(k, w) => Box::new(Times(*k, FixedWidth(*w))),
        WidthKind::DivByNbUnassigned(k) => Box::new(DivBy(*k, NbUnassignedWidth(n))),
    }
}

/// The model-side pieces of a run, as trait objects (any model family).
pub struct Core<'a, S> {
    pub pb: &'a (dyn Problem<State = S> + Send + Sync),
    pub rlx: &'a (dyn Relaxation<State = S> + Send + Sync),
    pub rank: &'a (dyn StateRanking<State = S> + Send + Sync),
    pub dom: &'a (dyn DominanceChecker<State = S> + Send + Sync),
    pub n: usize,
    pub budget: usize,
}

/// Runs one solver on one instance under one configuration.
pub fn run_table(t: &TableDP, o: &Oracle, cfg: &Config, opts: &RunOpts) -> RunOut {
    let rlx_inner = TRelax { t, o, rub: &cfg.rub };
    let rank = TRank { t, o, mode: &cfg.rank };
    let dom_inner: Box<dyn DominanceChecker<State = St> + Send + Sync> = match cfg.dom {
        DomMode::None => Box::new(EmptyDominanceChecker::default()),
        _ => Box::new(SimpleDominanceChecker::new(TDom { t, o, mode: &cfg.dom }, t.n)),
    };
    let core = Core { pb: t, rlx: &rlx_inner, rank: &rank, dom: dom_inner.as_ref(), n: t.n, budget: o.budget };
    run_core(&core, cfg.dd, cfg.cache, &cfg.fringe, &cfg.width, opts)
}

pub fn run_core<S: StateT>(core: &Core<S>, dd: DdKind, cache: CacheKind, fringe_kind: &FringeKind, width_kind: &WidthKind, opts: &RunOpts) -> RunOutG<S> {
    let log: Arc<Log<S>> = Log::new(opts.record);
    let fine = if opts.fine_yields { opts.yield_hook.clone() } else { None };
    let pb = RecProblem { inner: core.pb, log: log.clone() };
    let rlx = RecRelax { inner: core.rlx, log: log.clone() };
    let rank = core.rank;
    let width_inner = make_width::<S>(width_kind, core.n);
    let width = RecWidth { inner: width_inner.as_ref(), log: log.clone() };
    let dom = RecDom { inner: core.dom, log: log.clone(), yield_hook: fine.clone() };
    let mut cut = CountCut::new(opts.fire_at, opts.budget.unwrap_or(core.budget), log.clone());
    cut.yield_hook = fine.clone();
    cut.trigger = opts.cut_trigger.clone();
    let cut = Arc::new(cut);
    let dynrank = DynRank(rank);
    let mut f_simple = SimpleFringe::new(MaxUB::new(&dynrank));
    let mut f_nodup = NoDupFringe::new(MaxUB::new(&dynrank));
    let mut f_tie = TieShuffleFringe::new(if let FringeKind::TieShuffle(c) = fringe_kind { c.clone() } else { vec![] });
    let inner_fringe: &mut (dyn Fringe<State = S> + Send + Sync) = match fringe_kind {
        FringeKind::Simple => &mut f_simple,
        FringeKind::NoDup => &mut f_nodup,
        FringeKind::TieShuffle(_) => &mut f_tie,
    };
    // self-enqueue detection: (state, depth) of the last node popped by each thread
    let self_enqueue = Arc::new(AtomicBool::new(false));
    let last_pop: Arc<Mutex<Vec<(u32, S, usize)>>> = Arc::new(Mutex::new(vec![]));
    let lp = last_pop.clone();
    let on_pop: Arc<dyn Fn(&SubProblem<S>) + Send + Sync> = Arc::new(move |n: &SubProblem<S>| {
        let tag = thread_tag();
        let mut g = lp.lock();
        g.retain(|e| e.0 != tag);
        g.push((tag, (*n.state).clone(), n.depth));
    });
    let lp = last_pop.clone();
    let se = self_enqueue.clone();
    let cut2 = cut.clone();
    let stop = opts.stop_on_self_enqueue;
    let on_push: Arc<dyn Fn(&SubProblem<S>) + Send + Sync> = Arc::new(move |n: &SubProblem<S>| {
        let tag = thread_tag();
        let g = lp.lock();
        if g.iter().any(|e| e.0 == tag && e.1 == *n.state && e.2 == n.depth) {
            se.store(true, AO::SeqCst);
            if stop {
                cut2.force_stop.store(true, AO::SeqCst);
            }
        }
    });
    let mut fringe = RecFringe { inner: inner_fringe, log: log.clone(), len_mirror: opts.len_mirror.clone().unwrap_or_else(|| Arc::new(AtomicUsize::new(0))), on_push: Some(on_push), on_pop: Some(on_pop) };
    set_cache_observer::<S>(Some(Arc::new(LogCacheObs { log: log.clone(), yield_hook: fine.clone() })));
    take_panics();
    // an un-scheduled parallel run goes under the passive observer (a crashed worker must not hang the check)
    let free = opts.threads.is_some() && opts.yield_hook.is_none();
    let mut free_report = crate::sched::FreeReport::default();
    let mut body = || catch_unwind(AssertUnwindSafe(|| {
        macro_rules! go {
            ($D:ty, $C:ty) => {
                solve::<S, $D, HookCache<$C>>(&pb, &rlx, rank, &width, &dom, cut.as_ref(), &mut fringe, opts)
            };
        }
        match (dd, cache) {
            (DdKind::Lel, CacheKind::Empty) => go!(DefaultMDDLEL<S>, EmptyCache<S>),
            (DdKind::Lel, CacheKind::Simple) => go!(DefaultMDDLEL<S>, SimpleCache<S>),
            (DdKind::Frontier, CacheKind::Empty) => go!(DefaultMDDFC<S>, EmptyCache<S>),
            (DdKind::Frontier, CacheKind::Simple) => go!(DefaultMDDFC<S>, SimpleCache<S>),
            (DdKind::Pooled, CacheKind::Empty) => go!(Pooled<S>, EmptyCache<S>),
            (DdKind::Pooled, CacheKind::Simple) => go!(Pooled<S>, SimpleCache<S>),
        }
    }));
    let res = if free {
        let (r, rep) = crate::sched::with_free_run(body);
        free_report = rep;
        if rep.watchdog_fired {
            crate::infra::note_watchdog();
        }
        r
    } else {
        body()
    };
    set_cache_observer::<S>(None);
    let polls = cut.nb_polls();
    let fired = cut.fired.load(AO::SeqCst);
    let exhausted = cut.exhausted.load(AO::SeqCst);
    let se = self_enqueue.load(AO::SeqCst);
    let evs = log.take();
    let cv = log.c.vals();
    match res {
        Ok(r) => RunOutG {
            panic: None,
            completion: Some(r.completion),
            best_value: r.best_value,
            best_solution: r.best_solution,
            lb: r.lb,
            ub: r.ub,
            explored: r.explored,
            gap: r.gap,
            polls,
            fired,
            exhausted,
            self_enqueue: se,
            log: evs,
            c: cv,
            watchdog: free_report.watchdog_fired,
        },
        Err(_) => {
            let p = take_panics();
            RunOutG {
                panic: Some(p.join(" | ")),
                completion: None,
                best_value: None,
                best_solution: None,
                lb: isize::MIN,
                ub: isize::MAX,
                explored: 0,
                gap: 1.0,
                polls,
                fired,
                exhausted,
                self_enqueue: se,
                log: evs,
                c: cv,
                watchdog: free_report.watchdog_fired,
            }
        }
    }
}

// ---------------------------------------------------------------------------
// Oracles on run results shared by several properties
// ---------------------------------------------------------------------------

/// C01-style verdict on an *uninterrupted* run: terminated, exact, optimal value.
pub fn check_exact_run(o: &Oracle, out: &RunOut) -> Result<(), String> {
    check_exact_value(o.opt, out)
}
pub fn check_exact_value<S>(opt: Option<isize>, out: &RunOutG<S>) -> Result<(), String> {
    if let Some(p) = &out.panic {
        return Err(format!("solver panicked: {p}"));
    }
    if out.exhausted {
        return Err(format!("no termination: the proven poll budget was exhausted after {} polls (self-enqueue observed: {})", out.polls, out.self_enqueue));
    }
    let c = out.completion.as_ref().unwrap();
    if !c.is_exact {
        return Err("uninterrupted run reports is_exact = false".into());
    }
    if c.best_value != opt {
        return Err(format!("reported best value {:?} but the true optimum is {:?}", c.best_value, opt));
    }
    Ok(())
}

/// C02: the reported solution is feasible and consistent with the reported value.
/// `own` = the incumbent was found by the solver itself (no caller supplied primal in play).
pub fn check_solution(t: &TableDP, out: &RunOut, uninterrupted: bool, own: bool) -> Result<(), String> {
    check_solution_with(&|sol| replay(t, sol, t.n).map(|(_, v)| v), out, uninterrupted, own)
}
pub fn check_solution_with<S>(replay_fn: &dyn Fn(&[Decision]) -> Result<isize, String>, out: &RunOutG<S>, uninterrupted: bool, own: bool) -> Result<(), String> {
    if out.panic.is_some() {
        return Ok(()); // reported elsewhere
    }
    let c = out.completion.as_ref().unwrap();
    if out.best_solution.is_some() != out.best_value.is_some() {
        return Err(format!("solution present = {} but value present = {}", out.best_solution.is_some(), out.best_value.is_some()));
    }
    if c.best_value != out.best_value {
        return Err(format!("Completion.best_value {:?} differs from best_value() {:?}", c.best_value, out.best_value));
    }
    match (&out.best_solution, out.best_value) {
        (Some(sol), Some(v)) => {
            if out.lb != v {
                return Err(format!("best_lower_bound() {} differs from best value {}", out.lb, v));
            }
            if own {
                match replay_fn(sol) {
                    Ok(rv) => {
                        if rv != v {
                            return Err(format!("solution replays to {rv} but reported value is {v}; solution {:?}", sol));
                        }
                    }
                    Err(e) => return Err(format!("reported solution is not feasible: {e}; solution {:?}", sol)),
                }
            }
            if uninterrupted && !out.exhausted && out.ub != v {
                return Err(format!("after an uninterrupted run best_upper_bound() {} differs from the value {}", out.ub, v));
            }
        }
        _ => {
            if own && out.lb != isize::MIN {
                return Err(format!("no solution reported but best_lower_bound() = {}", out.lb));
            }
        }
    }
    Ok(())
}

/// summary of what happened in a recorded run (for non-triviality rules and labels)
#[derive(Default, Debug, Clone)]
pub struct LogSummary {
    pub merges: usize,
    pub pops: usize,
    pub pushes: usize,
    pub relax_calls: usize,
    pub widths: usize,
    pub not_impacted: usize,
    pub cache_hits: usize,
    pub dom_pruned: usize,
    pub coalesced: usize,
}
pub fn summarize(log: &[(u32, Ev<St>)]) -> LogSummary {
    let mut s = LogSummary::default();
    for (_, e) in log {
        match e {
            Ev::Merge { .. } => s.merges += 1,
            Ev::Pop { .. } => s.pops += 1,
            Ev::Push { len_before, len_after, .. } => {
                s.pushes += 1;
                if len_after == len_before {
                    s.coalesced += 1;
                }
            }
            Ev::Relax { .. } => s.relax_calls += 1,
            Ev::Width { .. } => s.widths += 1,
            Ev::Impacted { ret: false, .. } => s.not_impacted += 1,
            Ev::CacheGet { ret: Some(_), .. } => s.cache_hits += 1,
            Ev::DomCheck { dominated: true, .. } => s.dom_pruned += 1,
            _ => {}
        }
    }
    s
}

#[derive(Clone, Debug, Serialize, Deserialize)]
pub struct SolveCase {
    pub t: TableDP,
    pub cfg: Config,
}
pub fn solve_case_strategy(p: GenParams, g: ConfigGen) -> impl Strategy<Value = SolveCase> {
    (table_strategy(p), config_strategy(g)).prop_map(|(t, cfg)| SolveCase { t, cfg })
}
