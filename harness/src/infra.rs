//! Check infrastructure: tiers, sharding over child processes, statistics,
//! evidence files, replay files, known findings, proptest driver.
use proptest::strategy::{Strategy, ValueTree};
use proptest::test_runner::{Config, RngSeed, TestCaseError, TestError, TestRunner};
use serde::{Deserialize, Serialize};
use serde_json::{json, Value};
use std::cell::{Cell, RefCell};
use std::collections::{BTreeMap, BTreeSet};
use std::fmt::Debug;
use std::path::PathBuf;

pub const VERIF_DIR: &str = "/verif";
/// where evidence, replays and shard scratch files are written (overridable for sensitivity runs on modified trees)
/// where KNOWN_FINDINGS.txt and regress/ are read from (the directory of the `check` script)
pub fn home_dir() -> String {
    std::env::var("VERIF_HOME").unwrap_or_else(|_| VERIF_DIR.to_string())
}
pub fn out_dir() -> String {
    std::env::var("VERIF_OUT").unwrap_or_else(|_| home_dir())
}

#[derive(Clone, Copy, Debug, PartialEq, Eq)]
pub enum Tier {
    Quick,
    Thorough,
}
impl Tier {
    pub fn name(self) -> &'static str {
        match self {
            Tier::Quick => "quick",
            Tier::Thorough => "thorough",
        }
    }
    /// picks the quick or the thorough amount of work
    pub fn pick<T>(self, quick: T, thorough: T) -> T {
        match self {
            Tier::Quick => quick,
            Tier::Thorough => thorough,
        }
    }
}

#[derive(Clone, Debug, Default, Serialize, Deserialize)]
pub struct Violation {
    pub property: String,
    pub part: String,
    pub reason: String,
    pub case: Value,
}

#[derive(Clone, Debug, Default, Serialize, Deserialize)]
pub struct Stats {
    pub evaluations: u64,
    pub nontrivial: BTreeSet<u64>,
    pub labels: BTreeMap<String, u64>,
    pub samples: Vec<Value>,
    pub excluded_known: u64,
    pub known_hits: BTreeMap<String, u64>,
    pub known_examples: BTreeMap<String, Value>,
    pub exhaustive: BTreeMap<String, bool>,
    pub violations: Vec<Violation>,
    pub harness_errors: Vec<String>,
    pub inconclusive: Vec<String>,
    pub notes: BTreeMap<String, u64>,
}
impl Stats {
    pub fn label(&mut self, l: &str) {
        *self.labels.entry(l.to_string()).or_insert(0) += 1;
    }
    pub fn label_n(&mut self, l: &str, n: u64) {
        *self.labels.entry(l.to_string()).or_insert(0) += n;
    }
    pub fn merge(&mut self, o: Stats) {
        self.evaluations += o.evaluations;
        self.nontrivial.extend(o.nontrivial);
        for (k, v) in o.labels {
            *self.labels.entry(k).or_insert(0) += v;
        }
        for s in o.samples {
            if self.samples.len() < 6 {
                self.samples.push(s);
            }
        }
        self.excluded_known += o.excluded_known;
        for (k, v) in o.known_hits {
            *self.known_hits.entry(k).or_insert(0) += v;
        }
        for (k, v) in o.known_examples {
            self.known_examples.entry(k).or_insert(v);
        }
        for (k, v) in o.exhaustive {
            let e = self.exhaustive.entry(k).or_insert(true);
            *e = *e && v;
        }
        self.violations.extend(o.violations);
        self.harness_errors.extend(o.harness_errors);
        self.inconclusive.extend(o.inconclusive);
        for (k, v) in o.notes {
            *self.notes.entry(k).or_insert(0) += v;
        }
    }
}

/// What one executed case reports back
#[derive(Default, Debug)]
pub struct CaseObs {
    pub labels: Vec<String>,
    pub nontrivial: bool,
    /// evaluations represented by this case (default 1)
    pub evals: u64,
    pub extra_nontrivial: Vec<u64>,
}
impl CaseObs {
    pub fn label(&mut self, s: impl Into<String>) {
        self.labels.push(s.into())
    }
}

#[derive(Debug, Clone)]
pub enum Verdict {
    Pass,
    /// a violation of the property (reason)
    Fail(String),
    /// the case hits a listed known finding (its id); the search goes on
    Known(String),
    /// the harness itself is broken (oracle self check ...): exit 2
    HarnessError(String),
}

thread_local! { static WATCHDOG_HIT: Cell<bool> = Cell::new(false); }
/// called by the run machinery when a real-thread run had to be abandoned by a wall-clock watchdog
pub fn note_watchdog() {
    WATCHDOG_HIT.with(|w| w.set(true));
}
/// a verdict obtained while a watchdog expired is inconclusive, never a violation
pub fn settle_watchdog(v: Verdict) -> Verdict {
    if WATCHDOG_HIT.with(|w| w.replace(false)) {
        Verdict::HarnessError("a real-thread run did not return and was abandoned by the wall-clock watchdog (inconclusive)".into())
    } else {
        v
    }
}

pub struct Ctx {
    pub prop: String,
    pub tier: Tier,
    pub seed: u64,
    pub shard: usize,
    pub nshards: usize,
    pub stats: Stats,
    pub known: KnownFindings,
}

impl Ctx {
    pub fn part_seed(&self, part: &str) -> u64 {
        fxhash::hash64(&(self.seed, &self.prop, part, self.shard as u64, 0x5eedu64))
    }
    pub fn record_violation(&mut self, part: &str, reason: String, case: Value) {
        self.stats.violations.push(Violation { property: self.prop.clone(), part: part.to_string(), reason, case });
    }
    /// Accounts one executed (non-proptest) case.
    pub fn account(&mut self, part: &str, obs: CaseObs, case_json: impl FnOnce() -> Value, verdict: Verdict) {
        let verdict = settle_watchdog(verdict);
        let evals = obs.evals.max(1);
        self.stats.evaluations += evals;
        for l in &obs.labels {
            self.stats.label(l);
        }
        let need_json = obs.nontrivial || !matches!(verdict, Verdict::Pass) || self.stats.samples.len() < 3;
        let cj = if need_json { Some(case_json()) } else { None };
        if obs.nontrivial {
            let h = fxhash::hash64(&(part, cj.as_ref().unwrap().to_string()));
            self.stats.nontrivial.insert(h);
            if self.stats.samples.len() < 3 {
                self.stats.samples.push(json!({"part": part, "case": cj.clone().unwrap()}));
            }
        }
        for h in obs.extra_nontrivial {
            self.stats.nontrivial.insert(h);
        }
        match verdict {
            Verdict::Pass => {}
            Verdict::Fail(reason) => self.record_violation(part, reason, cj.unwrap()),
            Verdict::Known(id) => {
                *self.stats.known_hits.entry(id.clone()).or_insert(0) += 1;
                self.stats.excluded_known += 1;
                self.stats.known_examples.entry(id).or_insert_with(|| cj.unwrap());
            }
            Verdict::HarnessError(e) => self.stats.harness_errors.push(format!("{part}: {e}")),
        }
    }

    /// Runs `cases` generated cases of `strat` through `test` with proptest
    /// (seeded, no persistence). On failure the case is shrunk and recorded as a
    /// violation. Statistics are only collected until the first failure (the
    /// closure is re-run during shrinking).
    pub fn pt_run<T, S>(&mut self, part: &str, cases: u32, strat: S, to_json: impl Fn(&T) -> Value, test: impl Fn(&T, &mut CaseObs) -> Verdict)
    where
        T: Debug,
        S: Strategy<Value = T>,
    {
        let seed = self.part_seed(part);
        let mut cfg = Config::default();
        cfg.cases = cases;
        cfg.failure_persistence = None;
        cfg.rng_seed = RngSeed::Fixed(seed);
        // shrinking only affects how small the reported counter-example is, never the verdict: it is
        // bounded in iterations and in time (failures that involve a watchdog are slow to re-run)
        cfg.max_shrink_iters = 3000;
        cfg.max_shrink_time = 90_000;
        cfg.verbose = 0;
        cfg.source_file = None;
        let mut runner = TestRunner::new(cfg);
        let failed = Cell::new(false);
        let last_reason = RefCell::new(String::new());
        let harness_err: RefCell<Option<String>> = RefCell::new(None);
        let me = RefCell::new(&mut *self);
        let res = runner.run(&strat, |t| {
            let mut obs = CaseObs::default();
            let v = settle_watchdog(test(&t, &mut obs));
            if !failed.get() {
                let mut me = me.borrow_mut();
                match &v {
                    Verdict::Fail(_) => {
                        // count it, the violation itself is recorded after shrinking
                        failed.set(true);
                        let mut o2 = CaseObs::default();
                        o2.labels = obs.labels;
                        o2.evals = obs.evals;
                        me.account(part, o2, || to_json(&t), Verdict::Pass);
                    }
                    _ => me.account(part, obs, || to_json(&t), v.clone()),
                }
            }
            match v {
                Verdict::Pass | Verdict::Known(_) => Ok(()),
                Verdict::Fail(r) => {
                    *last_reason.borrow_mut() = r.clone();
                    Err(TestCaseError::fail(r))
                }
                Verdict::HarnessError(e) => {
                    *harness_err.borrow_mut() = Some(e);
                    Ok(())
                }
            }
        });
        drop(me);
        match res {
            Ok(()) => {}
            Err(TestError::Fail(reason, value)) => {
                self.record_violation(part, reason.message().to_string(), to_json(&value));
            }
            Err(TestError::Abort(r)) => self.stats.harness_errors.push(format!("{part}: proptest aborted: {r}")),
        }
        if let Some(e) = harness_err.into_inner() {
            self.stats.harness_errors.push(format!("{part}: {e}"));
        }
    }
}

/// Draws one value from a strategy with a deterministic runner (used to build
/// fixed pools of instances).
pub fn sample_values<T: Debug, S: Strategy<Value = T>>(strat: &S, seed: u64, count: usize) -> Vec<T> {
    let mut cfg = Config::default();
    cfg.failure_persistence = None;
    cfg.rng_seed = RngSeed::Fixed(seed);
    let mut runner = TestRunner::new(cfg);
    (0..count).map(|_| strat.new_tree(&mut runner).expect("strategy failed").current()).collect()
}

// ---------------------------------------------------------------------------
// Known findings (committed file, never written at run time)
// ---------------------------------------------------------------------------
#[derive(Clone, Debug, Default)]
pub struct KnownFindings {
    /// (finding id, property, text)
    pub known: Vec<(String, String, String)>,
}
impl KnownFindings {
    pub fn load() -> Self {
        let mut k = KnownFindings::default();
        let p = format!("{}/KNOWN_FINDINGS.txt", home_dir());
        if let Ok(s) = std::fs::read_to_string(p) {
            for line in s.lines() {
                let line = line.trim();
                if let Some(rest) = line.strip_prefix("known:") {
                    // known: property=C08 id=F2b <text>
                    let mut prop = String::new();
                    let mut id = String::new();
                    let mut text = vec![];
                    for w in rest.split_whitespace() {
                        if let Some(p) = w.strip_prefix("property=") {
                            prop = p.to_string();
                        } else if let Some(i) = w.strip_prefix("id=") {
                            id = i.to_string();
                        } else {
                            text.push(w);
                        }
                    }
                    k.known.push((id, prop, text.join(" ")));
                }
            }
        }
        k
    }
    /// is finding `id` listed as known for property `prop` ?
    pub fn is_known(&self, prop: &str, id: &str) -> bool {
        self.known.iter().any(|(i, p, _)| i == id && p == prop)
    }
}

// ---------------------------------------------------------------------------
// replay files
// ---------------------------------------------------------------------------
pub fn write_replay(v: &Violation) -> PathBuf {
    let dir = PathBuf::from(format!("{}/replays", out_dir()));
    let _ = std::fs::create_dir_all(&dir);
    let body = json!({"property": v.property, "part": v.part, "reason": v.reason, "case": v.case});
    let s = serde_json::to_string_pretty(&body).unwrap();
    let h = fxhash::hash64(&s);
    let p = dir.join(format!("{}-{:016x}.json", v.property, h));
    std::fs::write(&p, s).expect("cannot write replay file");
    p
}

// ---------------------------------------------------------------------------
// evidence
// ---------------------------------------------------------------------------
pub struct EvidenceMeta {
    pub rule: String,
    pub assumptions: Vec<String>,
}

pub fn write_evidence(prop: &str, tier: Tier, seed: u64, wall_s: f64, stats: &Stats, meta: &EvidenceMeta, known_lines: &[String]) {
    let dir = PathBuf::from(format!("{}/evidence", out_dir()));
    let _ = std::fs::create_dir_all(&dir);
    // the run as a whole is only "exhaustive" if it had no random part at all; sub-spaces are listed separately
    let all_exh_only = false;
    let body = json!({
        "property_id": prop,
        "tier": tier.name(),
        "seed": seed,
        "level": "exploration",
        "coverage": {
            "evaluations": stats.evaluations,
            "distinct_nontrivial": stats.nontrivial.len(),
            "rule": meta.rule,
            "samples": stats.samples,
            "label_histogram": stats.labels,
            "exhaustive_subspaces": stats.exhaustive,
            "exhaustive": all_exh_only,
            "excluded_known": stats.excluded_known,
            "known_finding_hits": stats.known_hits,
            "known_finding_examples": stats.known_examples,
            "known_findings_listed": known_lines,
            "notes": stats.notes,
        },
        "assumptions": meta.assumptions,
        "wall_s": wall_s,
        "violations": stats.violations.len(),
    });
    let p = dir.join(format!("{prop}.json"));
    std::fs::write(&p, serde_json::to_string_pretty(&body).unwrap()).expect("cannot write evidence");
}
