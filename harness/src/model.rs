//! TableDP: the main generated model family (DESIGN §3.1).
//!
//! A layered, table-driven deterministic DP on `b` atoms; a *state* is a set of
//! atoms (bitmask), exact states are singletons, the relaxation is the powerset
//! relaxation (merge = union).  Everything here is model-side code handed to
//! the library through the public traits; the oracle (h*, brute force, replay)
//! only ever looks at the atom tables, never at library code.
use ddo::*;
use proptest::prelude::*;
use serde::{Deserialize, Serialize};
use std::sync::Arc;

pub const NMAX: usize = 8;
pub const BMAX: usize = 4;
pub const NDMAX: usize = 3;
/// "minus infinity" used for infeasible atoms in rough bounds / dominance coordinates
pub const NEG: isize = -(1 << 40);

#[derive(Clone, Debug, PartialEq, Eq, Hash, PartialOrd, Ord, Serialize, Deserialize)]
pub struct St {
    pub depth: usize,
    pub set: u32,
}

#[derive(Clone, Debug, PartialEq, Eq, Hash, Serialize, Deserialize)]
pub struct TableDP {
    pub n: usize,
    pub b: usize,
    pub nd: usize,
    /// order[layer] = id of the variable decided at that layer
    pub order: Vec<usize>,
    /// delta[layer][atom][d] = Some((next atom, base cost))
    pub delta: Vec<Vec<Vec<Option<(usize, isize)>>>>,
    /// psi[layer in 0..=n][atom] >= 0: potential added to the cost of an arc entering (layer, atom)
    pub psi: Vec<Vec<isize>>,
    /// relevant[layer][atom]; when false the only decision is 0 = identity, cost 0
    pub relevant: Vec<Vec<bool>>,
    pub init: usize,
    pub v0: isize,
    /// does the state carry its depth (true) or not (false: "depth-free")
    pub embed_depth: bool,
    /// Some((bx, by)): "lattice" variant. The atoms are the points (x, y) of a bx x by grid
    /// (atom = x * by + y), the tables are monotone in the product order (a greater atom offers
    /// at least the same decisions, at least the same costs and potentials, and leads to a greater
    /// or equal atom), every state is a singleton and merge = component-wise max (join).
    /// Unlike the union of the powerset variant, the join of some nodes may coincide with the
    /// state of another node of the same layer (the "recycled merged node" path of the diagrams).
    #[serde(default)]
    pub join: Option<(usize, usize)>,
    /// "telescoping" potentials: an arc a -> b of layer l costs c - psi[l][a] + psi[l+1][b] (instead of
    /// c + psi[l+1][b]); for a set state the subtracted term is the max over its atoms. A merged state is then
    /// WORSE than its members on its outgoing arcs (it pays the largest potential back) and the arc relaxation
    /// `relax` - which raises the inbound arc from psi(dst) to psi(merged) - is what keeps the diagram a
    /// relaxation: with an identity `relax` the bound would be unsound. (Max-cut / max-2-sat style.)
    #[serde(default)]
    pub tele: bool,
}

impl TableDP {
    pub fn layer_of(&self, var: usize) -> usize {
        self.order.iter().position(|v| *v == var).expect("unknown variable")
    }
    pub fn has_irrelevance(&self) -> bool {
        self.relevant.iter().any(|l| l.iter().any(|r| !*r))
    }
    pub fn has_potential(&self) -> bool {
        self.psi.iter().any(|l| l.iter().any(|p| *p != 0))
    }
    /// effective transition on atoms: (next atom, full cost of the arc)
    pub fn tr(&self, l: usize, a: usize, d: usize) -> Option<(usize, isize)> {
        if !self.relevant[l][a] {
            if d == 0 {
                Some((a, 0))
            } else {
                None
            }
        } else {
            self.delta[l][a][d].map(|(nx, c)| (nx, c + self.psi[l + 1][nx] - if self.tele { self.psi[l][a] } else { 0 }))
        }
    }
    /// base (potential free) transition on atoms
    fn tr_base(&self, l: usize, a: usize, d: usize) -> Option<(usize, isize)> {
        if !self.relevant[l][a] {
            if d == 0 {
                Some((a, 0))
            } else {
                None
            }
        } else {
            self.delta[l][a][d]
        }
    }
    pub fn big_psi(&self, l: usize, set: u32) -> isize {
        let mut m = 0;
        let mut first = true;
        for a in 0..self.b {
            if set >> a & 1 == 1 {
                if first || self.psi[l][a] > m {
                    m = self.psi[l][a];
                    first = false;
                }
            }
        }
        m
    }
    pub fn leq(&self, a: usize, b: usize) -> bool {
        match self.join {
            Some((_, by)) => a / by <= b / by && a % by <= b % by,
            None => a == b,
        }
    }
    pub fn join_atoms(&self, a: usize, b: usize) -> usize {
        let (_, by) = self.join.expect("join_atoms on a powerset model");
        (a / by).max(b / by) * by + (a % by).max(b % by)
    }
    pub fn meet_atoms(&self, a: usize, b: usize) -> usize {
        let (_, by) = self.join.expect("meet_atoms on a powerset model");
        (a / by).min(b / by) * by + (a % by).min(b % by)
    }
    pub fn mk_state(&self, depth: usize, set: u32) -> St {
        St { depth: if self.embed_depth { depth } else { 0 }, set }
    }
    pub fn decision(&self, l: usize, d: usize) -> Decision {
        Decision { variable: Variable(self.order[l]), value: d as isize }
    }
    pub fn validate(&self) {
        assert!(self.n >= 1 && self.n <= NMAX && self.b >= 1 && self.b <= BMAX && self.nd >= 1 && self.nd <= NDMAX);
        assert_eq!(self.order.len(), self.n);
        let mut o = self.order.clone();
        o.sort();
        assert_eq!(o, (0..self.n).collect::<Vec<_>>());
        assert_eq!(self.delta.len(), self.n);
        assert_eq!(self.psi.len(), self.n + 1);
        assert!(self.init < self.b);
        if self.has_irrelevance() {
            assert!(!self.embed_depth, "irrelevance only with depth-free states");
            assert!(!self.has_potential(), "irrelevance only without potential");
        }
        for l in 0..self.n {
            for a in 0..self.b {
                for d in 0..self.nd {
                    if let Some((nx, _)) = self.delta[l][a][d] {
                        assert!(nx < self.b);
                    }
                }
            }
        }
        for l in 0..=self.n {
            for a in 0..self.b {
                assert!(self.psi[l][a] >= 0);
            }
        }
        if let Some((bx, by)) = self.join {
            assert_eq!(bx * by, self.b);
            for l in 0..=self.n {
                for a in 0..self.b {
                    for c in 0..self.b {
                        if self.leq(a, c) {
                            assert!(self.psi[l][a] <= self.psi[l][c], "potential not monotone");
                            if l < self.n {
                                for d in 0..self.nd {
                                    if let Some((nx, co)) = self.tr_base(l, a, d) {
                                        let (nx2, co2) = self.tr_base(l, c, d).expect("domain not monotone");
                                        assert!(self.leq(nx, nx2) && co <= co2, "transition not monotone");
                                    }
                                }
                            }
                        }
                    }
                }
            }
        }
    }
}

impl Problem for TableDP {
    type State = St;
    fn nb_variables(&self) -> usize {
        self.n
    }
    fn initial_state(&self) -> St {
        self.mk_state(0, 1 << self.init)
    }
    fn initial_value(&self) -> isize {
        self.v0
    }
    fn transition(&self, s: &St, d: Decision) -> St {
        let l = self.layer_of(d.variable.id());
        let mut out = 0u32;
        for a in 0..self.b {
            if s.set >> a & 1 == 1 {
                if let Some((nx, _)) = self.tr_base(l, a, d.value as usize) {
                    out |= 1 << nx;
                }
            }
        }
        St { depth: if self.embed_depth { s.depth + 1 } else { 0 }, set: out }
    }
    fn transition_cost(&self, s: &St, dst: &St, d: Decision) -> isize {
        let l = self.layer_of(d.variable.id());
        let mut best = isize::MIN;
        for a in 0..self.b {
            if s.set >> a & 1 == 1 {
                if let Some((_, c)) = self.tr_base(l, a, d.value as usize) {
                    best = best.max(c);
                }
            }
        }
        if self.has_irrelevance() {
            best
        } else {
            best + self.big_psi(l + 1, dst.set) - if self.tele { self.big_psi(l, s.set) } else { 0 }
        }
    }
    fn next_variable(&self, depth: usize, _: &mut dyn Iterator<Item = &St>) -> Option<Variable> {
        if depth < self.n {
            Some(Variable(self.order[depth]))
        } else {
            None
        }
    }
    fn for_each_in_domain(&self, var: Variable, s: &St, f: &mut dyn DecisionCallback) {
        let l = self.layer_of(var.id());
        for d in 0..self.nd {
            let mut ok = false;
            for a in 0..self.b {
                if s.set >> a & 1 == 1 && self.tr_base(l, a, d).is_some() {
                    ok = true;
                }
            }
            if ok {
                f.apply(Decision { variable: var, value: d as isize });
            }
        }
    }
    fn is_impacted_by(&self, var: Variable, s: &St) -> bool {
        let l = self.layer_of(var.id());
        (0..self.b).any(|a| s.set >> a & 1 == 1 && self.relevant[l][a])
    }
}

// ---------------------------------------------------------------------------
// Oracle
// ---------------------------------------------------------------------------
#[derive(Clone, Debug)]
pub struct Oracle {
    /// h[l][a] = best value-to-go from atom a at layer l (None = infeasible)
    pub h: Vec<Vec<Option<isize>>>,
    pub opt: Option<isize>,
    /// number of distinct feasible prefixes reaching (l, a)
    pub cnt: Vec<Vec<u64>>,
    /// proven upper bound on the number of cutoff polls of a terminating B&B (DESIGN §1)
    pub budget: usize,
    /// number of complete feasible decision sequences
    pub nb_solutions: u64,
}

impl Oracle {
    pub fn new(t: &TableDP) -> Oracle {
        let mut h = vec![vec![None; t.b]; t.n + 1];
        for a in 0..t.b {
            h[t.n][a] = Some(0);
        }
        for l in (0..t.n).rev() {
            for a in 0..t.b {
                let mut best: Option<isize> = None;
                for d in 0..t.nd {
                    if let Some((nx, c)) = t.tr(l, a, d) {
                        if let Some(hn) = h[l + 1][nx] {
                            let v = c + hn;
                            if best.map_or(true, |b| v > b) {
                                best = Some(v);
                            }
                        }
                    }
                }
                h[l][a] = best;
            }
        }
        let mut cnt = vec![vec![0u64; t.b]; t.n + 1];
        cnt[0][t.init] = 1;
        for l in 0..t.n {
            for a in 0..t.b {
                if cnt[l][a] == 0 {
                    continue;
                }
                for d in 0..t.nd {
                    if let Some((nx, _)) = t.tr(l, a, d) {
                        cnt[l + 1][nx] += cnt[l][a];
                    }
                }
            }
        }
        let mut total: u64 = 0;
        for l in 0..=t.n {
            let s: u64 = cnt[l].iter().sum();
            total = total.saturating_add(s.saturating_mul(1u64 << l));
        }
        let budget = (2 * (t.n as u64 + 1)).saturating_mul(total).saturating_add(16);
        let opt = h[0][t.init].map(|x| x + t.v0);
        let nb_solutions = cnt[t.n].iter().sum();
        Oracle { h, opt, cnt, budget: budget.min(50_000_000) as usize, nb_solutions }
    }
    /// value-to-go of a *set* state at a layer (max over its atoms)
    pub fn h_set(&self, l: usize, set: u32) -> Option<isize> {
        let mut best = None;
        for a in 0..self.h[l].len() {
            if set >> a & 1 == 1 {
                if let Some(v) = self.h[l][a] {
                    if best.map_or(true, |b| v > b) {
                        best = Some(v);
                    }
                }
            }
        }
        best
    }
    /// Independent cross-check of h* (brute force DFS over all decision sequences).
    /// Returns Err when the two oracles disagree (harness error).
    pub fn self_check(&self, t: &TableDP) -> Result<(), String> {
        if self.nb_solutions > 20_000 {
            return Ok(());
        }
        // (the number of *prefixes* is bounded by n * nb of complete..no: dead ends) bound the DFS by a step count
        let mut steps = 0u64;
        fn dfs(t: &TableDP, l: usize, a: usize, acc: isize, best: &mut Option<isize>, steps: &mut u64) {
            *steps += 1;
            if *steps > 2_000_000 {
                return;
            }
            if l == t.n {
                if best.map_or(true, |b| acc > b) {
                    *best = Some(acc);
                }
                return;
            }
            for d in 0..t.nd {
                if let Some((nx, c)) = t.tr(l, a, d) {
                    dfs(t, l + 1, nx, acc + c, best, steps);
                }
            }
        }
        let mut best = None;
        dfs(t, 0, t.init, t.v0, &mut best, &mut steps);
        if steps > 2_000_000 {
            return Ok(());
        }
        if best != self.opt {
            return Err(format!("oracle self-check: backward induction says {:?}, brute force says {:?}", self.opt, best));
        }
        Ok(())
    }
    /// all complete feasible solutions (decision lists in layer order) with their value; None if too many
    pub fn all_solutions(&self, t: &TableDP, limit: usize) -> Option<Vec<(isize, Vec<Decision>)>> {
        if self.nb_solutions as usize > limit {
            return None;
        }
        let mut out = vec![];
        fn dfs(t: &TableDP, o: &Oracle, l: usize, a: usize, acc: isize, cur: &mut Vec<Decision>, out: &mut Vec<(isize, Vec<Decision>)>) {
            if o.h[l][a].is_none() {
                return;
            }
            if l == t.n {
                out.push((acc, cur.clone()));
                return;
            }
            for d in 0..t.nd {
                if let Some((nx, c)) = t.tr(l, a, d) {
                    cur.push(t.decision(l, d));
                    dfs(t, o, l + 1, nx, acc + c, cur, out);
                    cur.pop();
                }
            }
        }
        dfs(t, self, 0, t.init, t.v0, &mut vec![], &mut out);
        Some(out)
    }
}

/// Replays a list of decisions (any order) from the root through the first `upto` layers.
/// Returns the atom reached and the accumulated value, or an explanation of why the
/// decisions are not a feasible prefix.  A variable without a decision is accepted only
/// where the model declares the current atom not impacted (default decision).
pub fn replay(t: &TableDP, path: &[Decision], upto: usize) -> Result<(usize, isize), String> {
    let mut seen = vec![false; t.n];
    for d in path {
        let v = d.variable.id();
        if v >= t.n {
            return Err(format!("decision on unknown variable {v}"));
        }
        if seen[v] {
            return Err(format!("two decisions on variable {v}"));
        }
        seen[v] = true;
        if t.layer_of(v) >= upto {
            return Err(format!("decision on variable {v} (layer {}) beyond depth {upto}", t.layer_of(v)));
        }
    }
    let mut a = t.init;
    let mut v = t.v0;
    for l in 0..upto {
        let var = t.order[l];
        match path.iter().find(|d| d.variable.id() == var) {
            Some(d) => {
                if d.value < 0 || d.value as usize >= t.nd {
                    return Err(format!("value {} out of range for variable {var}", d.value));
                }
                match t.tr(l, a, d.value as usize) {
                    Some((nx, c)) => {
                        a = nx;
                        v += c;
                    }
                    None => return Err(format!("decision x{var}={} not in the domain at layer {l} atom {a}", d.value)),
                }
            }
            None => {
                if t.relevant[l][a] {
                    return Err(format!("no decision for variable {var} at layer {l} although atom {a} is impacted"));
                }
            }
        }
    }
    Ok((a, v))
}

// ---------------------------------------------------------------------------
// Model-side heuristics handed to the solver
// ---------------------------------------------------------------------------
#[derive(Clone, Debug, PartialEq, Eq, Hash, Serialize, Deserialize)]
pub enum RubMode {
    /// trait default (isize::MAX)
    None,
    /// tightest admissible bound; infeasible atoms get NEG
    Exact,
    /// like Exact but infeasible atoms get isize::MIN (saturating arithmetic paths)
    ExactMinInf,
    /// exact + slack[l][a] (>= 0)
    Slack(Vec<Vec<isize>>),
}
#[derive(Clone, Debug, PartialEq, Eq, Hash, Serialize, Deserialize)]
pub enum DomMode {
    None,
    /// coordinates = h* (one per layer for depth-free states), value used
    Exact,
    /// h* rule restricted to atoms of the same generated class r(atom): fewer comparable pairs
    Weak(Vec<isize>),
    /// Exact rule but states are partitioned in `m` key classes and atoms in `none_mask` have no key
    Keyed { m: u32, none_mask: u32 },
}
#[derive(Clone, Debug, PartialEq, Eq, Hash, Serialize, Deserialize)]
pub enum RankMode {
    SetAsc,
    SetDesc,
    Hstar,
    /// priority per set index (length 2^b)
    Prio(Vec<u8>),
}

pub struct TRelax<'a> {
    pub t: &'a TableDP,
    pub o: &'a Oracle,
    pub rub: &'a RubMode,
}
impl TRelax<'_> {
    fn rub_at(&self, l: usize, set: u32) -> isize {
        let mut best = isize::MIN;
        for a in 0..self.t.b {
            if set >> a & 1 == 1 {
                let v = match (self.rub, self.o.h[l][a]) {
                    (RubMode::Exact, Some(v)) => v,
                    (RubMode::Exact, None) => NEG,
                    (RubMode::ExactMinInf, Some(v)) => v,
                    (RubMode::ExactMinInf, None) => isize::MIN,
                    (RubMode::Slack(s), Some(v)) => v + s[l][a],
                    (RubMode::Slack(_), None) => NEG,
                    (RubMode::None, _) => isize::MAX,
                };
                best = best.max(v);
            }
        }
        best
    }
}
impl Relaxation for TRelax<'_> {
    type State = St;
    fn merge(&self, states: &mut dyn Iterator<Item = &St>) -> St {
        let mut set = 0;
        let mut depth = 0;
        for s in states {
            set |= s.set;
            depth = s.depth;
        }
        if self.t.join.is_some() {
            // lattice variant: the join of all the atoms
            let mut j: Option<usize> = None;
            for a in 0..self.t.b {
                if set >> a & 1 == 1 {
                    j = Some(j.map_or(a, |x| self.t.join_atoms(x, a)));
                }
            }
            set = 1 << j.unwrap_or(0);
        }
        St { depth, set }
    }
    fn relax(&self, _src: &St, dst: &St, merged: &St, d: Decision, cost: isize) -> isize {
        if self.t.has_irrelevance() {
            return cost;
        }
        let l = self.t.layer_of(d.variable.id());
        cost - self.t.big_psi(l + 1, dst.set) + self.t.big_psi(l + 1, merged.set)
    }
    fn fast_upper_bound(&self, s: &St) -> isize {
        if matches!(self.rub, RubMode::None) {
            return isize::MAX;
        }
        if self.t.embed_depth {
            self.rub_at(s.depth, s.set)
        } else {
            (0..=self.t.n).map(|l| self.rub_at(l, s.set)).max().unwrap()
        }
    }
}

pub struct TRank<'a> {
    pub t: &'a TableDP,
    pub o: &'a Oracle,
    pub mode: &'a RankMode,
}
impl StateRanking for TRank<'_> {
    type State = St;
    fn compare(&self, a: &St, b: &St) -> std::cmp::Ordering {
        match self.mode {
            RankMode::SetAsc => a.set.cmp(&b.set),
            RankMode::SetDesc => b.set.cmp(&a.set),
            RankMode::Hstar => {
                let f = |s: &St| {
                    let l = if self.t.embed_depth { s.depth } else { 0 };
                    self.o.h_set(l, s.set).unwrap_or(NEG)
                };
                f(a).cmp(&f(b))
            }
            RankMode::Prio(p) => p[a.set as usize % p.len()].cmp(&p[b.set as usize % p.len()]),
        }
    }
}

pub struct TDom<'a> {
    pub t: &'a TableDP,
    pub o: &'a Oracle,
    pub mode: &'a DomMode,
}
impl TDom<'_> {
    fn nb_h_dims(&self) -> usize {
        if self.t.embed_depth {
            1
        } else {
            self.t.b
        }
    }
    /// Depth-free states cannot know their layer. The rule used for them compares two atoms only
    /// when the first one is *strictly* better than the second at every layer where a dominance
    /// check can happen (or both are dead ends there): R(a1,a2) = for all l < n:
    /// h*(l,a1) > h*(l,a2) or both infeasible.  R is a strict partial order (transitive), so
    /// "dominates" always means "has a strictly better best completion at the actual layer".
    /// (A rule that merely has h*(l,a1) >= h*(l,a2) everywhere and > at some *other* layer is
    /// f-admissible but breaks ties inconsistently and lets stale store entries prune in circles:
    /// DESIGN §11, false alarm 1.)
    fn strictly_better_everywhere(&self, a1: usize, a2: usize) -> bool {
        (0..self.t.n).all(|l| match (self.o.h[l][a1], self.o.h[l][a2]) {
            (Some(x), Some(y)) => x > y,
            (Some(_), None) => true,
            (None, None) => true,
            (None, Some(_)) => false,
        })
    }
}
impl Dominance for TDom<'_> {
    type State = St;
    type Key = u32;
    fn get_key(&self, state: Arc<St>) -> Option<u32> {
        match self.mode {
            DomMode::Keyed { m, none_mask } => {
                if state.set & none_mask != 0 {
                    None
                } else {
                    Some(state.set % (*m).max(1))
                }
            }
            // "weakened" rule: two states are only comparable when their atoms have the same generated
            // class r. (r must not be a *coordinate*: a state that is merely tied on h* and value but has a
            // greater r would "dominate" without being strictly better, which lets stale store entries
            // prune in circles - DESIGN §11, false alarm 1.)
            DomMode::Weak(r) => Some((0..self.t.b).filter(|a| state.set >> a & 1 == 1).map(|a| r[a] as u32).max().unwrap_or(0)),
            _ => Some(0),
        }
    }
    fn nb_dimensions(&self, _: &St) -> usize {
        self.nb_h_dims()
    }
    fn get_coordinate(&self, s: &St, i: usize) -> isize {
        if i < self.nb_h_dims() {
            if self.t.embed_depth {
                self.o.h_set(s.depth, s.set).unwrap_or(NEG)
            } else if s.set.count_ones() == 1 {
                // coordinate i = "this atom is atom i or is strictly better than atom i everywhere":
                // a1 >= a2 in all coordinates  <=>  a1 == a2 or R(a1, a2)   (R transitive)
                let a = s.set.trailing_zeros() as usize;
                (a == i || self.strictly_better_everywhere(a, i)) as isize
            } else {
                0 // only exact (singleton) states are ever submitted to the checker
            }
        } else {
            0
        }
    }
    fn use_value(&self) -> bool {
        true
    }
}

// ---------------------------------------------------------------------------
// Generators
// ---------------------------------------------------------------------------
#[derive(Clone, Debug)]
pub struct GenParams {
    pub n: (usize, usize),
    pub b: (usize, usize),
    pub nd: (usize, usize),
    /// None = generated, Some(x) = forced
    pub embed: Option<bool>,
    pub allow_irrelevance: bool,
    pub allow_potential: bool,
}
impl GenParams {
    pub fn default_small() -> Self {
        GenParams { n: (1, 7), b: (1, 4), nd: (1, 3), embed: None, allow_irrelevance: true, allow_potential: true }
    }
}

#[derive(Clone, Debug)]
pub struct Raw {
    pub n: usize,
    pub b: usize,
    pub nd: usize,
    pub order_keys: Vec<u8>,
    pub trans: Vec<(u8, u8, i8)>,
    pub psi: Vec<u8>,
    pub relv: Vec<u8>,
    pub flags: (bool, bool, bool),
    /// lattice variant requested (only honoured when b == 4 and no irrelevance)
    pub join_on: bool,
    pub scale: isize,
    pub p_absent: u8,
    pub p_irr: u8,
    pub init: u8,
    pub v0: i8,
}

pub fn build(raw: Raw, p: &GenParams) -> TableDP {
    let Raw { n, b, nd, order_keys, trans, psi, relv, flags, join_on, scale, p_absent, p_irr, init, v0 } = raw;
    let (embed_raw, pot_on, irr_on) = flags;
    let embed_depth = p.embed.unwrap_or(embed_raw);
    let irr = p.allow_irrelevance && irr_on && !embed_depth;
    let pot = p.allow_potential && pot_on && !irr;
    let mut idx: Vec<usize> = (0..n).collect();
    idx.sort_by_key(|i| order_keys[*i]);
    let order = idx;
    let mut delta = vec![vec![vec![None; nd]; b]; n];
    for l in 0..n {
        for a in 0..b {
            for d in 0..nd {
                let (pr, nx, c) = trans[(l * BMAX + a) * NDMAX + d];
                if pr >= p_absent {
                    let nx = (nx as usize * b) >> 8;
                    let c = (c as isize * scale) / 10;
                    delta[l][a][d] = Some((nx, c));
                }
            }
        }
    }
    let mut psi_t = vec![vec![0isize; b]; n + 1];
    if pot {
        for l in 0..=n {
            for a in 0..b {
                psi_t[l][a] = (psi[l * BMAX + a] % 4) as isize;
            }
        }
    }
    let mut relevant = vec![vec![true; b]; n];
    if irr {
        for l in 0..n {
            for a in 0..b {
                relevant[l][a] = relv[l * BMAX + a] >= p_irr;
            }
        }
    }
    let mut t = TableDP { n, b, nd, order, delta, psi: psi_t, relevant, init: (init as usize * b) >> 8, v0: v0 as isize, embed_depth, join: None, tele: pot && (v0 & 1 == 1) };
    if join_on && b == 4 {
        // make the tables monotone in the product order of the 2 x 2 grid, bottom-up
        t.join = Some((2, 2));
        let preds: [&[usize]; 4] = [&[], &[0], &[0], &[1, 2]];
        if irr {
            // an atom c that is not impacted at layer l only offers "0 = stay, cost 0": every relevant atom
            // below it may then only offer decision 0, at a cost <= 0, leading below c. (This is what makes
            // the join of two impacted states possibly NOT impacted, as with an intersection-like merge.)
            for l in 0..n {
                for c in 0..4 {
                    if t.relevant[l][c] {
                        continue;
                    }
                    for a in 0..4 {
                        if a != c && t.leq(a, c) && t.relevant[l][a] {
                            for d in 1..nd {
                                t.delta[l][a][d] = None;
                            }
                            if let Some((nx, co)) = t.delta[l][a][0] {
                                t.delta[l][a][0] = Some((t.meet_atoms(nx, c), co.min(0)));
                            }
                        }
                    }
                }
            }
        }
        for l in 0..=n {
            for a in 0..4 {
                for p in preds[a] {
                    t.psi[l][a] = t.psi[l][a].max(t.psi[l][*p]);
                }
            }
        }
        for l in 0..n {
            for a in 0..4 {
                if !t.relevant[l][a] {
                    continue;
                }
                for p in preds[a] {
                    for d in 0..nd {
                        if let Some((pn, pc)) = t.tr_base(l, *p, d) {
                            t.delta[l][a][d] = Some(match t.delta[l][a][d] {
                                Some((an, ac)) => (t.join_atoms(an, pn), ac.max(pc)),
                                None => (pn, pc),
                            });
                        }
                    }
                }
            }
        }
    }
    t.validate();
    t
}

pub fn table_strategy(p: GenParams) -> impl Strategy<Value = TableDP> {
    // sizes are biased towards the upper half of their range: small instances never
    // trigger restriction / relaxation (measured with the label histogram)
    fn biased(lo: usize, hi: usize) -> impl Strategy<Value = usize> {
        let mid = (lo + hi + 1) / 2;
        prop_oneof![1 => lo..=hi, 3 => mid..=hi]
    }
    let dims = (biased(p.n.0, p.n.1), biased(p.b.0, p.b.1), biased(p.nd.0, p.nd.1));
    let arrays = (
        prop::collection::vec(any::<u8>(), NMAX),
        prop::collection::vec((any::<u8>(), any::<u8>(), -10i8..=10i8), NMAX * BMAX * NDMAX),
        prop::collection::vec(any::<u8>(), (NMAX + 1) * BMAX),
        prop::collection::vec(any::<u8>(), NMAX * BMAX),
    );
    let scalars = (
        ((any::<bool>(), any::<bool>(), any::<bool>()), prop::sample::select(vec![false, false, true])),
        prop::sample::select(vec![1isize, 2, 5, 10, 10]),
        prop::sample::select(vec![0u8, 30, 60, 110]),
        prop::sample::select(vec![60u8, 100, 160]),
        any::<u8>(),
        -5i8..=5i8,
    );
    (dims, arrays, scalars).prop_map(move |((n, b, nd), (order_keys, trans, psi, relv), ((flags, join_on), scale, p_absent, p_irr, init, v0))| {
        build(Raw { n, b, nd, order_keys, trans, psi, relv, flags, join_on, scale, p_absent, p_irr, init, v0 }, &p)
    })
}

/// The bounded-exhaustive sub-space of DESIGN §3.6: n=3, B=2, nd=2, transitions in {⊥,0,1};
/// `idx` in 0..3^12 selects the transition table, `cost_table` in 0..3 one of three fixed cost tables.
pub fn exhaustive_instance(idx: u32, cost_table: usize) -> TableDP {
    let (n, b, nd) = (3usize, 2usize, 2usize);
    let mut x = idx;
    let mut delta = vec![vec![vec![None; nd]; b]; n];
    // fixed cost tables with ties and negatives
    const COSTS: [[isize; 12]; 3] = [
        [1, 0, -1, 1, 0, 0, 1, -1, 0, 1, 1, -1],
        [0, 0, 0, 1, -1, 1, 0, 1, -1, -1, 0, 1],
        [-1, -1, 1, 0, 1, 1, -1, 0, 0, 0, -1, 1],
    ];
    let mut k = 0;
    for l in 0..n {
        for a in 0..b {
            for d in 0..nd {
                let v = x % 3;
                x /= 3;
                if v > 0 {
                    delta[l][a][d] = Some(((v - 1) as usize, COSTS[cost_table][k]));
                }
                k += 1;
            }
        }
    }
    TableDP { n, b, nd, order: vec![0, 1, 2], delta, psi: vec![vec![0; b]; n + 1], relevant: vec![vec![true; b]; n], init: 0, v0: 0, embed_depth: true, join: None, tele: false }
}
pub const EXHAUSTIVE_SPACE: u32 = 531_441; // 3^12
