pub mod ddlevel;
pub mod infra;
pub mod monitor;
pub mod model;
pub mod props;
pub mod run;
pub mod sched;
pub mod wrap;
