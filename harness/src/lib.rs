pub mod infra;
pub mod model;
pub mod props;
pub mod run;
pub mod wrap;
