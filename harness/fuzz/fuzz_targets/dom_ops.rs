#![no_main]
use arbitrary::Unstructured;
use libfuzzer_sys::fuzz_target;
use vh::infra::CaseObs;
use vh::props::ds::*;
mod common;
fuzz_target!(|data: &[u8]| {
    let mut u = Unstructured::new(data);
    let dims = u.int_in_range(1usize..=3).unwrap_or(1);
    let spec = GenDomSpec { dims, use_value: u.arbitrary().unwrap_or(false), key_mode: u.int_in_range(0u8..=2).unwrap_or(0) };
    let mut ops = vec![];
    while !u.is_empty() && ops.len() < 200 {
        if u.int_in_range(0u8..=12).unwrap_or(0) == 0 {
            ops.push(DomOp::ClearLayer(u.int_in_range(0usize..=1).unwrap_or(0)));
        } else {
            let coords = (0..dims).map(|_| u.int_in_range(0i8..=2).unwrap_or(0)).collect();
            ops.push(DomOp::Query { state: DState { key: u.int_in_range(0u8..=1).unwrap_or(0), coords }, depth: u.int_in_range(0usize..=1).unwrap_or(0), value: u.int_in_range(0isize..=2).unwrap_or(0) });
        }
    }
    let case = DomCase { spec, ops };
    let v = eval_dom(&case, &mut CaseObs::default());
    common::settle("C10", "checker-fuzz", v, serde_json::to_value(&case).unwrap());
});
