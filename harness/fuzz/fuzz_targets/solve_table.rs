#![no_main]
use arbitrary::Unstructured;
use libfuzzer_sys::fuzz_target;
use vh::infra::{CaseObs, KnownFindings};
use vh::model::*;
use vh::run::*;
mod common;
fuzz_target!(|data: &[u8]| {
    // the instance is decoded exactly like the proptest generator builds it (model::build)
    let mut u = Unstructured::new(data);
    let n = u.int_in_range(1usize..=6).unwrap_or(1);
    let b = u.int_in_range(1usize..=4).unwrap_or(1);
    let nd = u.int_in_range(1usize..=3).unwrap_or(1);
    let flags = (u.arbitrary().unwrap_or(true), u.arbitrary().unwrap_or(false), u.arbitrary().unwrap_or(false));
    let scale = [1isize, 2, 5, 10][u.int_in_range(0usize..=3).unwrap_or(3)];
    let p_absent = [0u8, 30, 60, 110][u.int_in_range(0usize..=3).unwrap_or(0)];
    let p_irr = [60u8, 100, 160][u.int_in_range(0usize..=2).unwrap_or(0)];
    let init = u.arbitrary::<u8>().unwrap_or(0);
    let v0 = u.int_in_range(-5i8..=5).unwrap_or(0);
    let dd = [DdKind::Lel, DdKind::Frontier, DdKind::Pooled][u.int_in_range(0usize..=2).unwrap_or(0)];
    let cache = [CacheKind::Empty, CacheKind::Simple][u.int_in_range(0usize..=1).unwrap_or(0)];
    let fringe = match u.int_in_range(0u8..=2).unwrap_or(0) {
        0 => FringeKind::Simple,
        1 => FringeKind::NoDup,
        _ => FringeKind::TieShuffle((0..8).map(|_| u.arbitrary::<u8>().unwrap_or(0)).collect()),
    };
    let width = match u.int_in_range(0u8..=5).unwrap_or(0) {
        0 | 1 => WidthKind::Fixed(1),
        2 => WidthKind::Fixed(2),
        3 => WidthKind::Fixed(3),
        4 => WidthKind::NbUnassigned,
        _ => WidthKind::DivByNbUnassigned(u.int_in_range(1usize..=3).unwrap_or(1)),
    };
    let rub = match u.int_in_range(0u8..=3).unwrap_or(0) {
        0 | 1 => RubMode::None,
        2 => RubMode::Exact,
        _ => RubMode::ExactMinInf,
    };
    let dom = match u.int_in_range(0u8..=3).unwrap_or(0) {
        0 | 1 => DomMode::None,
        2 => DomMode::Exact,
        _ => DomMode::Keyed { m: 2, none_mask: 0 },
    };
    let rank = [RankMode::SetAsc, RankMode::SetDesc, RankMode::Hstar][u.int_in_range(0usize..=2).unwrap_or(0)].clone();
    let order_keys: Vec<u8> = (0..NMAX).map(|_| u.arbitrary::<u8>().unwrap_or(0)).collect();
    let psi: Vec<u8> = (0..(NMAX + 1) * BMAX).map(|_| u.arbitrary::<u8>().unwrap_or(0)).collect();
    let relv: Vec<u8> = (0..NMAX * BMAX).map(|_| u.arbitrary::<u8>().unwrap_or(255)).collect();
    let trans: Vec<(u8, u8, i8)> = (0..NMAX * BMAX * NDMAX).map(|_| (u.arbitrary::<u8>().unwrap_or(255), u.arbitrary::<u8>().unwrap_or(0), u.int_in_range(-10i8..=10).unwrap_or(1))).collect();
    let join_on = u.arbitrary().unwrap_or(false);
    let t = build(Raw { n, b, nd, order_keys, trans, psi, relv, flags, join_on, scale, p_absent, p_irr, init, v0 }, &GenParams::default_small());
    let case = SolveCase { t, cfg: Config { dd, cache, fringe, width, rub, dom, rank } };
    let v = vh::props::c01::eval(&case, &mut CaseObs::default(), &KnownFindings::default(), "C01");
    common::settle("C01", "table-fuzz", v, serde_json::to_value(&case).unwrap());
});
