#![no_main]
use arbitrary::Unstructured;
use libfuzzer_sys::fuzz_target;
use vh::infra::CaseObs;
use vh::props::ds::*;
mod common;
fuzz_target!(|data: &[u8]| {
    let mut u = Unstructured::new(data);
    let nodup = u.arbitrary::<bool>().unwrap_or(false);
    let mut ops = vec![];
    while !u.is_empty() && ops.len() < 400 {
        let k = u.int_in_range(0u8..=9).unwrap_or(0);
        ops.push(match k {
            0..=5 => FrOp::Push { state: u.int_in_range(0u8..=4).unwrap_or(0), depth: u.int_in_range(0usize..=2).unwrap_or(0), value: u.int_in_range(0isize..=3).unwrap_or(0), ub: u.int_in_range(0isize..=5).unwrap_or(0) },
            6..=8 => FrOp::Pop,
            _ => FrOp::Clear,
        });
    }
    let case = FringeCase { nodup, ops };
    let v = eval_fringe(&case, &mut CaseObs::default());
    common::settle("C11", "fringe-fuzz", v, serde_json::to_value(&case).unwrap());
});
