// shared by the fuzz targets: verdict handling
use vh::infra::*;
pub fn settle(prop: &str, part: &str, v: Verdict, case: serde_json::Value) {
    match v {
        Verdict::Pass | Verdict::Known(_) => {}
        Verdict::HarnessError(e) => panic!("HARNESS-ERROR in fuzz target: {e}"),
        Verdict::Fail(reason) => {
            let p = write_replay(&Violation { property: prop.to_string(), part: part.to_string(), reason: reason.clone(), case });
            println!("violation in part '{part}': {reason}");
            println!("VIOLATION property={prop} replay={}", p.display());
            panic!("property {prop} violated");
        }
    }
}
