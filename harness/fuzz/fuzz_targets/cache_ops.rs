#![no_main]
use arbitrary::Unstructured;
use libfuzzer_sys::fuzz_target;
use vh::infra::CaseObs;
use vh::props::ds::*;
mod common;
fuzz_target!(|data: &[u8]| {
    let mut u = Unstructured::new(data);
    let mut ops = vec![];
    while !u.is_empty() && ops.len() < 200 {
        let k = u.int_in_range(0u8..=12).unwrap_or(0);
        ops.push(match k {
            0 => CacheOp::Clear,
            1 | 2 => CacheOp::ClearLayer(u.int_in_range(0usize..=2).unwrap_or(0)),
            _ => CacheOp::Update { state: u.int_in_range(0u8..=2).unwrap_or(0), depth: u.int_in_range(0usize..=2).unwrap_or(0), value: u.int_in_range(0isize..=2).unwrap_or(0), explored: u.arbitrary().unwrap_or(false) },
        });
    }
    let case = CacheCase { ops };
    let v = eval_cache(&case, &mut CaseObs::default());
    common::settle("C18", "cache-seq-fuzz", v, serde_json::to_value(&case).unwrap());
});
